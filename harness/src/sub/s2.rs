//! S2: the real `rumqttc::MqttState` (3.1.1) and `rumqttc::v5::MqttState` driven directly
//! through their public API (`new`, `handle_outgoing_packet`, `handle_incoming_packet`,
//! `clean`, `inflight`, the public fields `collision`, `events`, `await_pingresp`,
//! `collision_ping_count`), every call under `guarded`.
//!
//! Two layers:
//!  * `Machine`: one neutral interface over both state machines (neutral packet type `Pk`,
//!    neutral event type `Ev`), so models and oracles are written once.
//!  * `S2<M>`: a miniature of what `EventLoop::select`/`poll`/`clean` and `Network::readb`
//!    do *around* the state machine, so that only histories the event loop can produce are
//!    fed: the request gate (`!collision && (!pending.is_empty() || inflight < limit)`), the
//!    pending queue filled by `clean()` (in-flight work in front) and cleared when the CONNACK
//!    has no session (3.1.1: packet ids start over), the read batch (at most 9 packets, replies
//!    buffered and flushed only when the whole batch was handled), immediate write+flush on
//!    the request / ping branch. There is no request channel: a request that is not taken is
//!    gone (requests `clean()` drains from the channel are exercised on S3).
//!    This layer is substrate (what is fed and what counts as "written"), never oracle.
use crate::common::{guarded, PanicInfo};
use serde::{Deserialize, Serialize};
use std::collections::VecDeque;

#[derive(Clone, Copy, Debug, PartialEq, Eq, PartialOrd, Ord, Hash, Serialize, Deserialize)]
pub enum Ver {
    V4,
    V5,
}

impl Ver {
    pub fn name(self) -> &'static str {
        match self {
            Ver::V4 => "v4",
            Ver::V5 => "v5",
        }
    }
}

/// Neutral packet (both directions, both protocol versions). `reason` is the MQTT 5 reason
/// code byte (always 0 for 3.1.1); `alias` the MQTT 5 topic alias property.
#[derive(Clone, Debug, PartialEq, Eq, Serialize, Deserialize)]
pub enum Pk {
    Publish {
        pkid: u16,
        qos: u8,
        topic: String,
        payload: String,
        dup: bool,
        retain: bool,
        alias: Option<u16>,
    },
    PubAck { pkid: u16, reason: u8 },
    PubRec { pkid: u16, reason: u8 },
    PubRel { pkid: u16, reason: u8 },
    PubComp { pkid: u16, reason: u8 },
    Subscribe { pkid: u16, filters: Vec<(String, u8)> },
    Unsubscribe { pkid: u16, filters: Vec<String> },
    SubAck { pkid: u16, codes: Vec<u8> },
    UnsubAck { pkid: u16 },
    PingReq,
    PingResp,
    ConnAck {
        session_present: bool,
        code: u8,
        receive_max: Option<u16>,
        alias_max: Option<u16>,
    },
    Disconnect { reason: u8 },
    /// a packet this neutral type has no shape for (Connect, Auth); only its name is kept
    Other(String),
}

impl Pk {
    pub fn publish(qos: u8, topic: &str, payload: &str) -> Pk {
        Pk::Publish {
            pkid: 0,
            qos,
            topic: topic.to_owned(),
            payload: payload.to_owned(),
            dup: false,
            retain: false,
            alias: None,
        }
    }
    pub fn kind(&self) -> &'static str {
        match self {
            Pk::Publish { .. } => "Publish",
            Pk::PubAck { .. } => "PubAck",
            Pk::PubRec { .. } => "PubRec",
            Pk::PubRel { .. } => "PubRel",
            Pk::PubComp { .. } => "PubComp",
            Pk::Subscribe { .. } => "Subscribe",
            Pk::Unsubscribe { .. } => "Unsubscribe",
            Pk::SubAck { .. } => "SubAck",
            Pk::UnsubAck { .. } => "UnsubAck",
            Pk::PingReq => "PingReq",
            Pk::PingResp => "PingResp",
            Pk::ConnAck { .. } => "ConnAck",
            Pk::Disconnect { .. } => "Disconnect",
            Pk::Other(_) => "Other",
        }
    }
    /// packet id, 0 where the packet has none
    pub fn pkid(&self) -> u16 {
        match self {
            Pk::Publish { pkid, .. }
            | Pk::PubAck { pkid, .. }
            | Pk::PubRec { pkid, .. }
            | Pk::PubRel { pkid, .. }
            | Pk::PubComp { pkid, .. }
            | Pk::Subscribe { pkid, .. }
            | Pk::Unsubscribe { pkid, .. }
            | Pk::SubAck { pkid, .. }
            | Pk::UnsubAck { pkid } => *pkid,
            _ => 0,
        }
    }
    pub fn reason(&self) -> u8 {
        match self {
            Pk::PubAck { reason, .. }
            | Pk::PubRec { reason, .. }
            | Pk::PubRel { reason, .. }
            | Pk::PubComp { reason, .. }
            | Pk::Disconnect { reason } => *reason,
            _ => 0,
        }
    }
    /// short printable form for messages and samples
    pub fn show(&self) -> String {
        match self {
            Pk::Publish {
                pkid,
                qos,
                topic,
                payload,
                alias,
                ..
            } => match alias {
                Some(a) => format!("Publish(id={pkid},q{qos},'{topic}','{payload}',alias={a})"),
                None => format!("Publish(id={pkid},q{qos},'{topic}','{payload}')"),
            },
            Pk::PubAck { pkid, reason }
            | Pk::PubRec { pkid, reason }
            | Pk::PubRel { pkid, reason }
            | Pk::PubComp { pkid, reason } => {
                if *reason == 0 {
                    format!("{}({pkid})", self.kind())
                } else {
                    format!("{}({pkid},reason=0x{reason:02x})", self.kind())
                }
            }
            Pk::Subscribe { pkid, filters } => format!("Subscribe(id={pkid},{}f)", filters.len()),
            Pk::Unsubscribe { pkid, filters } => format!("Unsubscribe(id={pkid},{}f)", filters.len()),
            Pk::SubAck { pkid, .. } => format!("SubAck({pkid})"),
            Pk::UnsubAck { pkid } => format!("UnsubAck({pkid})"),
            Pk::ConnAck {
                session_present,
                code,
                receive_max,
                ..
            } => format!("ConnAck(sp={session_present},code={code},rm={receive_max:?})"),
            Pk::Disconnect { reason } => format!("Disconnect(0x{reason:02x})"),
            Pk::Other(s) => format!("Other({s})"),
            Pk::PingReq => "PingReq".into(),
            Pk::PingResp => "PingResp".into(),
        }
    }
}

impl Pk {
    /// drop what the protocol version cannot carry (3.1.1: reason codes, aliases, CONNACK
    /// properties), so that what is recorded is what is fed
    pub fn for_version(self, ver: Ver) -> Pk {
        if ver == Ver::V5 {
            return self;
        }
        match self {
            Pk::Publish { pkid, qos, topic, payload, dup, retain, .. } => Pk::Publish { pkid, qos, topic, payload, dup, retain, alias: None },
            Pk::PubAck { pkid, .. } => Pk::PubAck { pkid, reason: 0 },
            Pk::PubRec { pkid, .. } => Pk::PubRec { pkid, reason: 0 },
            Pk::PubRel { pkid, .. } => Pk::PubRel { pkid, reason: 0 },
            Pk::PubComp { pkid, .. } => Pk::PubComp { pkid, reason: 0 },
            Pk::Disconnect { .. } => Pk::Disconnect { reason: 0 },
            Pk::ConnAck { session_present, code, .. } => Pk::ConnAck { session_present, code, receive_max: None, alias_max: None },
            other => other,
        }
    }
}

#[derive(Clone, Copy, Debug, PartialEq, Eq, Serialize, Deserialize)]
pub enum OutKind {
    Publish,
    Subscribe,
    Unsubscribe,
    PubAck,
    PubRec,
    PubRel,
    PubComp,
    PingReq,
    PingResp,
    Disconnect,
    AwaitAck,
}

impl OutKind {
    pub fn name(self) -> &'static str {
        match self {
            OutKind::Publish => "Publish",
            OutKind::Subscribe => "Subscribe",
            OutKind::Unsubscribe => "Unsubscribe",
            OutKind::PubAck => "PubAck",
            OutKind::PubRec => "PubRec",
            OutKind::PubRel => "PubRel",
            OutKind::PubComp => "PubComp",
            OutKind::PingReq => "PingReq",
            OutKind::PingResp => "PingResp",
            OutKind::Disconnect => "Disconnect",
            OutKind::AwaitAck => "AwaitAck",
        }
    }
}

/// Neutral form of `rumqttc::Event`
#[derive(Clone, Debug, PartialEq, Eq, Serialize, Deserialize)]
pub enum Ev {
    In(Pk),
    Out(OutKind, u16),
}

impl Ev {
    pub fn show(&self) -> String {
        match self {
            Ev::In(p) => format!("Incoming({})", p.show()),
            Ev::Out(k, id) => format!("Outgoing({}({id}))", k.name()),
        }
    }
}

/// Neutral form of `StateError`: the one variant the statements name, everything else by name
#[derive(Clone, Debug, PartialEq, Eq, Serialize, Deserialize)]
pub enum SErr {
    Unsolicited(u16),
    Other(String),
}

fn out_ev(o: &rumqttc::Outgoing) -> Ev {
    use rumqttc::Outgoing as O;
    match o {
        O::Publish(p) => Ev::Out(OutKind::Publish, *p),
        O::Subscribe(p) => Ev::Out(OutKind::Subscribe, *p),
        O::Unsubscribe(p) => Ev::Out(OutKind::Unsubscribe, *p),
        O::PubAck(p) => Ev::Out(OutKind::PubAck, *p),
        O::PubRec(p) => Ev::Out(OutKind::PubRec, *p),
        O::PubRel(p) => Ev::Out(OutKind::PubRel, *p),
        O::PubComp(p) => Ev::Out(OutKind::PubComp, *p),
        O::PingReq => Ev::Out(OutKind::PingReq, 0),
        O::PingResp => Ev::Out(OutKind::PingResp, 0),
        O::Disconnect => Ev::Out(OutKind::Disconnect, 0),
        O::AwaitAck(p) => Ev::Out(OutKind::AwaitAck, *p),
    }
}

/// One neutral interface over both real state machines
pub trait Machine: Clone {
    /// the real `Request` type (what `clean()` returns and `pending` holds)
    type Req: Clone;
    const VER: Ver;
    fn new(max_inflight: u16, manual_acks: bool) -> Self;
    fn handle_outgoing(&mut self, r: Self::Req) -> Result<Option<Pk>, SErr>;
    fn handle_incoming(&mut self, p: &Pk) -> Result<Option<Pk>, SErr>;
    fn clean(&mut self) -> Vec<Self::Req>;
    fn inflight(&self) -> u16;
    fn collision(&self) -> Option<Pk>;
    fn events_len(&self) -> usize;
    fn events_from(&self, n: usize) -> Vec<Ev>;
    fn drain_events(&mut self);
    fn await_pingresp(&self) -> bool;
    fn collision_ping_count(&self) -> usize;
    /// build the real request for a neutral one (Publish/Subscribe/Unsubscribe with pkid 0,
    /// PingReq, Disconnect, PubAck/PubRec as the user's manual acknowledgement, PubRel)
    fn make_req(p: &Pk) -> Self::Req;
    fn view_req(r: &Self::Req) -> Pk;
    /// What `poll()` does to the state when the CONNACK reports no session. 3.1.1:
    /// `last_pkid = 0; last_puback = 0` (crate-private fields; after `clean()` and with
    /// `pending` dropped that is a fresh state that keeps the event queue). MQTT 5: nothing.
    fn session_reset(&mut self, max_inflight: u16, manual_acks: bool);
}

// ------------------------------------------------------------------ 3.1.1

mod v4 {
    use super::*;
    use rumqttc::{self as c, Packet, QoS, Request};

    fn qos(q: u8) -> QoS {
        match q {
            0 => QoS::AtMostOnce,
            1 => QoS::AtLeastOnce,
            _ => QoS::ExactlyOnce,
        }
    }

    fn publish_to_pk(p: &c::Publish) -> Pk {
        Pk::Publish {
            pkid: p.pkid,
            qos: p.qos as u8,
            topic: p.topic.clone(),
            payload: String::from_utf8_lossy(&p.payload).into_owned(),
            dup: p.dup,
            retain: p.retain,
            alias: None,
        }
    }

    fn pk_to_publish(p: &Pk) -> c::Publish {
        let Pk::Publish {
            pkid,
            qos: q,
            topic,
            payload,
            dup,
            retain,
            ..
        } = p
        else {
            unreachable!()
        };
        let mut out = c::Publish::new(topic.clone(), qos(*q), payload.clone().into_bytes());
        out.pkid = *pkid;
        out.dup = *dup;
        out.retain = *retain;
        out
    }

    pub fn packet_to_pk(p: &Packet) -> Pk {
        match p {
            Packet::Publish(p) => publish_to_pk(p),
            Packet::PubAck(a) => Pk::PubAck { pkid: a.pkid, reason: 0 },
            Packet::PubRec(a) => Pk::PubRec { pkid: a.pkid, reason: 0 },
            Packet::PubRel(a) => Pk::PubRel { pkid: a.pkid, reason: 0 },
            Packet::PubComp(a) => Pk::PubComp { pkid: a.pkid, reason: 0 },
            Packet::Subscribe(s) => Pk::Subscribe {
                pkid: s.pkid,
                filters: s.filters.iter().map(|f| (f.path.clone(), f.qos as u8)).collect(),
            },
            Packet::Unsubscribe(u) => Pk::Unsubscribe {
                pkid: u.pkid,
                filters: u.topics.clone(),
            },
            Packet::SubAck(s) => Pk::SubAck {
                pkid: s.pkid,
                codes: s
                    .return_codes
                    .iter()
                    .map(|c| match c {
                        c::SubscribeReasonCode::Success(q) => *q as u8,
                        c::SubscribeReasonCode::Failure => 0x80,
                    })
                    .collect(),
            },
            Packet::UnsubAck(u) => Pk::UnsubAck { pkid: u.pkid },
            Packet::PingReq => Pk::PingReq,
            Packet::PingResp => Pk::PingResp,
            Packet::ConnAck(a) => Pk::ConnAck {
                session_present: a.session_present,
                code: a.code as u8,
                receive_max: None,
                alias_max: None,
            },
            Packet::Disconnect => Pk::Disconnect { reason: 0 },
            Packet::Connect(_) => Pk::Other("Connect".into()),
        }
    }

    pub fn pk_to_packet(p: &Pk) -> Packet {
        match p {
            Pk::Publish { .. } => Packet::Publish(pk_to_publish(p)),
            Pk::PubAck { pkid, .. } => Packet::PubAck(c::PubAck::new(*pkid)),
            Pk::PubRec { pkid, .. } => Packet::PubRec(c::PubRec::new(*pkid)),
            Pk::PubRel { pkid, .. } => Packet::PubRel(c::PubRel::new(*pkid)),
            Pk::PubComp { pkid, .. } => Packet::PubComp(c::PubComp::new(*pkid)),
            Pk::Subscribe { pkid, filters } => {
                let mut s = c::Subscribe::new_many(
                    filters.iter().map(|(f, q)| c::SubscribeFilter::new(f.clone(), qos(*q))),
                );
                s.pkid = *pkid;
                Packet::Subscribe(s)
            }
            Pk::Unsubscribe { pkid, filters } => Packet::Unsubscribe(c::Unsubscribe {
                pkid: *pkid,
                topics: filters.clone(),
            }),
            Pk::SubAck { pkid, codes } => Packet::SubAck(c::SubAck::new(
                *pkid,
                codes
                    .iter()
                    .map(|c| match c {
                        0..=2 => c::SubscribeReasonCode::Success(qos(*c)),
                        _ => c::SubscribeReasonCode::Failure,
                    })
                    .collect(),
            )),
            Pk::UnsubAck { pkid } => Packet::UnsubAck(c::UnsubAck::new(*pkid)),
            Pk::PingReq => Packet::PingReq,
            Pk::PingResp => Packet::PingResp,
            Pk::ConnAck {
                session_present,
                code,
                ..
            } => Packet::ConnAck(c::ConnAck::new(
                if *code == 0 {
                    c::ConnectReturnCode::Success
                } else {
                    c::ConnectReturnCode::NotAuthorized
                },
                *session_present,
            )),
            Pk::Disconnect { .. } => Packet::Disconnect,
            Pk::Other(_) => Packet::Connect(c::Connect::new("x")),
        }
    }

    fn err(e: c::StateError) -> SErr {
        match e {
            c::StateError::Unsolicited(p) => SErr::Unsolicited(p),
            other => {
                let s = format!("{other:?}");
                SErr::Other(s.split(['(', ' ', '{']).next().unwrap_or("?").to_owned())
            }
        }
    }

    impl Machine for c::MqttState {
        type Req = Request;
        const VER: Ver = Ver::V4;
        fn new(max_inflight: u16, manual_acks: bool) -> Self {
            c::MqttState::new(max_inflight, manual_acks)
        }
        fn handle_outgoing(&mut self, r: Request) -> Result<Option<Pk>, SErr> {
            self.handle_outgoing_packet(r)
                .map(|o| o.map(|p| packet_to_pk(&p)))
                .map_err(err)
        }
        fn handle_incoming(&mut self, p: &Pk) -> Result<Option<Pk>, SErr> {
            self.handle_incoming_packet(pk_to_packet(p))
                .map(|o| o.map(|p| packet_to_pk(&p)))
                .map_err(err)
        }
        fn clean(&mut self) -> Vec<Request> {
            c::MqttState::clean(self)
        }
        fn inflight(&self) -> u16 {
            c::MqttState::inflight(self)
        }
        fn collision(&self) -> Option<Pk> {
            self.collision.as_ref().map(publish_to_pk)
        }
        fn events_len(&self) -> usize {
            self.events.len()
        }
        fn events_from(&self, n: usize) -> Vec<Ev> {
            self.events
                .iter()
                .skip(n)
                .map(|e| match e {
                    c::Event::Incoming(p) => Ev::In(packet_to_pk(p)),
                    c::Event::Outgoing(o) => out_ev(o),
                })
                .collect()
        }
        fn drain_events(&mut self) {
            self.events.clear();
        }
        fn await_pingresp(&self) -> bool {
            self.await_pingresp
        }
        fn collision_ping_count(&self) -> usize {
            self.collision_ping_count
        }
        fn make_req(p: &Pk) -> Request {
            match p {
                Pk::Publish { .. } => Request::Publish(pk_to_publish(p)),
                Pk::PubAck { pkid, .. } => Request::PubAck(c::PubAck::new(*pkid)),
                Pk::PubRec { pkid, .. } => Request::PubRec(c::PubRec::new(*pkid)),
                Pk::PubRel { pkid, .. } => Request::PubRel(c::PubRel::new(*pkid)),
                Pk::PingReq => Request::PingReq(c::PingReq),
                Pk::Disconnect { .. } => Request::Disconnect(c::Disconnect),
                Pk::Subscribe { .. } | Pk::Unsubscribe { .. } => match pk_to_packet(p) {
                    Packet::Subscribe(s) => Request::Subscribe(s),
                    Packet::Unsubscribe(u) => Request::Unsubscribe(u),
                    _ => unreachable!(),
                },
                other => panic!("harness: no request form for {other:?}"),
            }
        }
        fn view_req(r: &Request) -> Pk {
            match r {
                Request::Publish(p) => publish_to_pk(p),
                Request::PubAck(a) => Pk::PubAck { pkid: a.pkid, reason: 0 },
                Request::PubRec(a) => Pk::PubRec { pkid: a.pkid, reason: 0 },
                Request::PubRel(a) => Pk::PubRel { pkid: a.pkid, reason: 0 },
                Request::PubComp(a) => Pk::PubComp { pkid: a.pkid, reason: 0 },
                Request::Subscribe(s) => packet_to_pk(&Packet::Subscribe(s.clone())),
                Request::Unsubscribe(u) => packet_to_pk(&Packet::Unsubscribe(u.clone())),
                Request::PingReq(_) => Pk::PingReq,
                Request::PingResp(_) => Pk::PingResp,
                Request::Disconnect(_) => Pk::Disconnect { reason: 0 },
                Request::SubAck(_) => Pk::Other("SubAck".into()),
                Request::UnsubAck(_) => Pk::Other("UnsubAck".into()),
            }
        }
        fn session_reset(&mut self, max_inflight: u16, manual_acks: bool) {
            // only sound right after clean(): nothing is held, nothing is parked
            if self.inflight() != 0 || self.collision.is_some() || !self.clone().clean().is_empty() {
                return;
            }
            let events = std::mem::take(&mut self.events);
            *self = c::MqttState::new(max_inflight, manual_acks);
            self.events = events;
        }
    }
}

// ------------------------------------------------------------------ MQTT 5

mod v5 {
    use super::*;
    use bytes::Bytes;
    use rumqttc::v5::mqttbytes::v5 as m;
    use rumqttc::v5::mqttbytes::v5::Packet;
    use rumqttc::v5::mqttbytes::QoS;
    use rumqttc::v5::{self as c, Request};

    fn qos(q: u8) -> QoS {
        match q {
            0 => QoS::AtMostOnce,
            1 => QoS::AtLeastOnce,
            _ => QoS::ExactlyOnce,
        }
    }

    // reason code bytes as in MQTT 5 table 2-6
    fn puback_reason(r: u8) -> m::PubAckReason {
        use m::PubAckReason::*;
        match r {
            0x00 => Success,
            0x10 => NoMatchingSubscribers,
            0x83 => ImplementationSpecificError,
            0x87 => NotAuthorized,
            0x90 => TopicNameInvalid,
            0x91 => PacketIdentifierInUse,
            0x97 => QuotaExceeded,
            0x99 => PayloadFormatInvalid,
            _ => UnspecifiedError,
        }
    }
    fn puback_byte(r: m::PubAckReason) -> u8 {
        use m::PubAckReason::*;
        match r {
            Success => 0x00,
            NoMatchingSubscribers => 0x10,
            UnspecifiedError => 0x80,
            ImplementationSpecificError => 0x83,
            NotAuthorized => 0x87,
            TopicNameInvalid => 0x90,
            PacketIdentifierInUse => 0x91,
            QuotaExceeded => 0x97,
            PayloadFormatInvalid => 0x99,
        }
    }
    fn pubrec_reason(r: u8) -> m::PubRecReason {
        use m::PubRecReason::*;
        match r {
            0x00 => Success,
            0x10 => NoMatchingSubscribers,
            0x83 => ImplementationSpecificError,
            0x87 => NotAuthorized,
            0x90 => TopicNameInvalid,
            0x91 => PacketIdentifierInUse,
            0x97 => QuotaExceeded,
            0x99 => PayloadFormatInvalid,
            _ => UnspecifiedError,
        }
    }
    fn pubrec_byte(r: m::PubRecReason) -> u8 {
        use m::PubRecReason::*;
        match r {
            Success => 0x00,
            NoMatchingSubscribers => 0x10,
            UnspecifiedError => 0x80,
            ImplementationSpecificError => 0x83,
            NotAuthorized => 0x87,
            TopicNameInvalid => 0x90,
            PacketIdentifierInUse => 0x91,
            QuotaExceeded => 0x97,
            PayloadFormatInvalid => 0x99,
        }
    }

    fn publish_to_pk(p: &m::Publish) -> Pk {
        Pk::Publish {
            pkid: p.pkid,
            qos: p.qos as u8,
            topic: String::from_utf8_lossy(&p.topic).into_owned(),
            payload: String::from_utf8_lossy(&p.payload).into_owned(),
            dup: p.dup,
            retain: p.retain,
            alias: p.properties.as_ref().and_then(|x| x.topic_alias),
        }
    }

    fn pk_to_publish(p: &Pk) -> m::Publish {
        let Pk::Publish {
            pkid,
            qos: q,
            topic,
            payload,
            dup,
            retain,
            alias,
        } = p
        else {
            unreachable!()
        };
        let props = alias.map(|a| m::PublishProperties {
            topic_alias: Some(a),
            ..Default::default()
        });
        let mut out = m::Publish::new(topic.clone(), qos(*q), Bytes::from(payload.clone().into_bytes()), props);
        out.pkid = *pkid;
        out.dup = *dup;
        out.retain = *retain;
        out
    }

    fn connack_props(receive_max: Option<u16>, alias_max: Option<u16>) -> Option<m::ConnAckProperties> {
        if receive_max.is_none() && alias_max.is_none() {
            return None;
        }
        Some(m::ConnAckProperties {
            session_expiry_interval: None,
            receive_max,
            max_qos: None,
            retain_available: None,
            max_packet_size: None,
            assigned_client_identifier: None,
            topic_alias_max: alias_max,
            reason_string: None,
            user_properties: vec![],
            wildcard_subscription_available: None,
            subscription_identifiers_available: None,
            shared_subscription_available: None,
            server_keep_alive: None,
            response_information: None,
            server_reference: None,
            authentication_method: None,
            authentication_data: None,
        })
    }

    pub fn packet_to_pk(p: &Packet) -> Pk {
        match p {
            Packet::Publish(p) => publish_to_pk(p),
            Packet::PubAck(a) => Pk::PubAck {
                pkid: a.pkid,
                reason: puback_byte(a.reason),
            },
            Packet::PubRec(a) => Pk::PubRec {
                pkid: a.pkid,
                reason: pubrec_byte(a.reason),
            },
            Packet::PubRel(a) => Pk::PubRel {
                pkid: a.pkid,
                reason: if a.reason == m::PubRelReason::Success { 0 } else { 0x92 },
            },
            Packet::PubComp(a) => Pk::PubComp {
                pkid: a.pkid,
                reason: if a.reason == m::PubCompReason::Success { 0 } else { 0x92 },
            },
            Packet::Subscribe(s) => Pk::Subscribe {
                pkid: s.pkid,
                filters: s.filters.iter().map(|f| (f.path.clone(), f.qos as u8)).collect(),
            },
            Packet::Unsubscribe(u) => Pk::Unsubscribe {
                pkid: u.pkid,
                filters: u.filters.clone(),
            },
            Packet::SubAck(s) => Pk::SubAck {
                pkid: s.pkid,
                codes: s
                    .return_codes
                    .iter()
                    .map(|c| match c {
                        m::SubscribeReasonCode::Success(q) => *q as u8,
                        _ => 0x80,
                    })
                    .collect(),
            },
            Packet::UnsubAck(u) => Pk::UnsubAck { pkid: u.pkid },
            Packet::PingReq(_) => Pk::PingReq,
            Packet::PingResp(_) => Pk::PingResp,
            Packet::ConnAck(a) => Pk::ConnAck {
                session_present: a.session_present,
                code: if a.code == m::ConnectReturnCode::Success { 0 } else { 0x80 },
                receive_max: a.properties.as_ref().and_then(|p| p.receive_max),
                alias_max: a.properties.as_ref().and_then(|p| p.topic_alias_max),
            },
            Packet::Disconnect(d) => Pk::Disconnect {
                reason: d.reason_code as u8,
            },
            Packet::Connect(..) => Pk::Other("Connect".into()),
            Packet::Auth(_) => Pk::Other("Auth".into()),
        }
    }

    pub fn pk_to_packet(p: &Pk) -> Packet {
        match p {
            Pk::Publish { .. } => Packet::Publish(pk_to_publish(p)),
            Pk::PubAck { pkid, reason } => {
                let mut a = m::PubAck::new(*pkid, None);
                a.reason = puback_reason(*reason);
                Packet::PubAck(a)
            }
            Pk::PubRec { pkid, reason } => {
                let mut a = m::PubRec::new(*pkid, None);
                a.reason = pubrec_reason(*reason);
                Packet::PubRec(a)
            }
            Pk::PubRel { pkid, reason } => {
                let mut a = m::PubRel::new(*pkid, None);
                a.reason = if *reason == 0 {
                    m::PubRelReason::Success
                } else {
                    m::PubRelReason::PacketIdentifierNotFound
                };
                Packet::PubRel(a)
            }
            Pk::PubComp { pkid, reason } => {
                let mut a = m::PubComp::new(*pkid, None);
                a.reason = if *reason == 0 {
                    m::PubCompReason::Success
                } else {
                    m::PubCompReason::PacketIdentifierNotFound
                };
                Packet::PubComp(a)
            }
            Pk::Subscribe { pkid, filters } => {
                let mut s = m::Subscribe::new_many(filters.iter().map(|(f, q)| m::Filter::new(f.clone(), qos(*q))), None);
                s.pkid = *pkid;
                Packet::Subscribe(s)
            }
            Pk::Unsubscribe { pkid, filters } => Packet::Unsubscribe(m::Unsubscribe {
                pkid: *pkid,
                filters: filters.clone(),
                properties: None,
            }),
            Pk::SubAck { pkid, codes } => Packet::SubAck(m::SubAck {
                pkid: *pkid,
                return_codes: codes
                    .iter()
                    .map(|c| match c {
                        0..=2 => m::SubscribeReasonCode::Success(qos(*c)),
                        _ => m::SubscribeReasonCode::Unspecified,
                    })
                    .collect(),
                properties: None,
            }),
            Pk::UnsubAck { pkid } => Packet::UnsubAck(m::UnsubAck {
                pkid: *pkid,
                reasons: vec![m::UnsubAckReason::Success],
                properties: None,
            }),
            Pk::PingReq => Packet::PingReq(m::PingReq),
            Pk::PingResp => Packet::PingResp(m::PingResp),
            Pk::ConnAck {
                session_present,
                code,
                receive_max,
                alias_max,
            } => Packet::ConnAck(m::ConnAck {
                session_present: *session_present,
                code: if *code == 0 {
                    m::ConnectReturnCode::Success
                } else {
                    m::ConnectReturnCode::NotAuthorized
                },
                properties: connack_props(*receive_max, *alias_max),
            }),
            Pk::Disconnect { reason } => Packet::Disconnect(m::Disconnect::new(match reason {
                0x00 => m::DisconnectReasonCode::NormalDisconnection,
                0x82 => m::DisconnectReasonCode::ProtocolError,
                0x8B => m::DisconnectReasonCode::ServerShuttingDown,
                _ => m::DisconnectReasonCode::UnspecifiedError,
            })),
            // a packet a server never sends: the state machine must answer WrongPacket
            Pk::Other(_) => Packet::PingReq(m::PingReq),
        }
    }

    fn err(e: c::StateError) -> SErr {
        match e {
            c::StateError::Unsolicited(p) => SErr::Unsolicited(p),
            other => {
                let s = format!("{other:?}");
                SErr::Other(s.split(['(', ' ', '{']).next().unwrap_or("?").to_owned())
            }
        }
    }

    impl Machine for c::MqttState {
        type Req = Request;
        const VER: Ver = Ver::V5;
        fn new(max_inflight: u16, manual_acks: bool) -> Self {
            c::MqttState::new(max_inflight, manual_acks)
        }
        fn handle_outgoing(&mut self, r: Request) -> Result<Option<Pk>, SErr> {
            self.handle_outgoing_packet(r)
                .map(|o| o.map(|p| packet_to_pk(&p)))
                .map_err(err)
        }
        fn handle_incoming(&mut self, p: &Pk) -> Result<Option<Pk>, SErr> {
            self.handle_incoming_packet(pk_to_packet(p))
                .map(|o| o.map(|p| packet_to_pk(&p)))
                .map_err(err)
        }
        fn clean(&mut self) -> Vec<Request> {
            c::MqttState::clean(self)
        }
        fn inflight(&self) -> u16 {
            c::MqttState::inflight(self)
        }
        fn collision(&self) -> Option<Pk> {
            self.collision.as_ref().map(publish_to_pk)
        }
        fn events_len(&self) -> usize {
            self.events.len()
        }
        fn events_from(&self, n: usize) -> Vec<Ev> {
            self.events
                .iter()
                .skip(n)
                .map(|e| match e {
                    c::Event::Incoming(p) => Ev::In(packet_to_pk(p)),
                    c::Event::Outgoing(o) => out_ev(o),
                })
                .collect()
        }
        fn drain_events(&mut self) {
            self.events.clear();
        }
        fn await_pingresp(&self) -> bool {
            self.await_pingresp
        }
        fn collision_ping_count(&self) -> usize {
            self.collision_ping_count
        }
        fn make_req(p: &Pk) -> Request {
            match p {
                Pk::Publish { .. } => Request::Publish(pk_to_publish(p)),
                Pk::PubAck { pkid, .. } => Request::PubAck(m::PubAck::new(*pkid, None)),
                Pk::PubRec { pkid, .. } => Request::PubRec(m::PubRec::new(*pkid, None)),
                Pk::PubRel { pkid, .. } => Request::PubRel(m::PubRel::new(*pkid, None)),
                Pk::PingReq => Request::PingReq,
                Pk::Disconnect { .. } => Request::Disconnect,
                Pk::Subscribe { .. } | Pk::Unsubscribe { .. } => match pk_to_packet(p) {
                    Packet::Subscribe(s) => Request::Subscribe(s),
                    Packet::Unsubscribe(u) => Request::Unsubscribe(u),
                    _ => unreachable!(),
                },
                other => panic!("harness: no request form for {other:?}"),
            }
        }
        fn view_req(r: &Request) -> Pk {
            match r {
                Request::Publish(p) => publish_to_pk(p),
                Request::PubAck(a) => Pk::PubAck { pkid: a.pkid, reason: 0 },
                Request::PubRec(a) => Pk::PubRec { pkid: a.pkid, reason: 0 },
                Request::PubRel(a) => Pk::PubRel { pkid: a.pkid, reason: 0 },
                Request::PubComp(a) => Pk::PubComp { pkid: a.pkid, reason: 0 },
                Request::Subscribe(s) => packet_to_pk(&Packet::Subscribe(s.clone())),
                Request::Unsubscribe(u) => packet_to_pk(&Packet::Unsubscribe(u.clone())),
                Request::PingReq => Pk::PingReq,
                Request::PingResp => Pk::PingResp,
                Request::Disconnect => Pk::Disconnect { reason: 0 },
                Request::SubAck(_) => Pk::Other("SubAck".into()),
                Request::UnsubAck(_) => Pk::Other("UnsubAck".into()),
            }
        }
        fn session_reset(&mut self, _max_inflight: u16, _manual_acks: bool) {}
    }
}

pub type V4State = rumqttc::MqttState;
pub type V5State = rumqttc::v5::MqttState;

// ------------------------------------------------------------------ the driver

/// Which branch of `EventLoop::select` a call stands for
#[derive(Clone, Copy, Debug, PartialEq, Eq, Serialize, Deserialize)]
pub enum Via {
    /// a new user request, taken because the gate was open
    Request,
    /// a request carried over in `pending` (gate bypassed)
    Replay,
    /// the keep-alive branch
    Ping,
    /// a packet of a read batch
    Read,
    /// v5 only: `poll()` hands the CONNACK of a new connection to the state machine
    ConnAck,
}

#[derive(Clone, Debug)]
pub enum Outcome {
    Ok(Option<Pk>),
    Err(SErr),
    Panic(PanicInfo),
}

impl Outcome {
    pub fn show(&self) -> String {
        match self {
            Outcome::Ok(None) => "Ok(None)".into(),
            Outcome::Ok(Some(p)) => format!("Ok({})", p.show()),
            Outcome::Err(SErr::Unsolicited(p)) => format!("Err(Unsolicited({p}))"),
            Outcome::Err(SErr::Other(s)) => format!("Err({s})"),
            Outcome::Panic(p) => format!("PANIC at {}: {}", p.location, p.message),
        }
    }
    pub fn packet(&self) -> Option<&Pk> {
        match self {
            Outcome::Ok(Some(p)) => Some(p),
            _ => None,
        }
    }
    pub fn is_ok(&self) -> bool {
        matches!(self, Outcome::Ok(_))
    }
}

/// One guarded call into the state machine and everything observed around it
#[derive(Clone, Debug)]
pub struct Call {
    pub via: Via,
    /// the request (neutral view) or the incoming packet
    pub input: Pk,
    pub outcome: Outcome,
    /// events appended to `state.events` by this call
    pub events: Vec<Ev>,
    /// connection number (0 = first)
    pub conn: u32,
}

impl Call {
    pub fn show(&self) -> String {
        format!(
            "{:?} {} -> {} events=[{}]",
            self.via,
            self.input.show(),
            self.outcome.show(),
            self.events.iter().map(|e| e.show()).collect::<Vec<_>>().join(", ")
        )
    }
}

/// What happened to the reply buffer of a read batch
#[derive(Clone, Debug, PartialEq, Eq)]
pub enum BatchEnd {
    /// all packets handled: the buffered replies were flushed (they are on the wire now)
    Flushed(Vec<Pk>),
    /// a packet raised an error: `readb` returned it, `poll()` dropped the network and with it
    /// the replies that were fed to the write buffer but never flushed
    Dropped(Vec<Pk>),
}

pub const READB_MAX: usize = 9; // framed.rs: count starts at 1, loop ends at count >= 10

pub struct S2<M: Machine> {
    pub st: M,
    pub ver: Ver,
    /// what `MqttState::new` got (v4: `MqttOptions::inflight`; v5: the upper limit)
    pub limit_cfg: u16,
    /// what the gate compares `inflight` with (v5: min(receive_max, upper limit) once a
    /// CONNACK carrying receive_max has been handed to the state machine)
    pub limit_eff: u16,
    /// a CONNACK has at some point of this history set the limit in force below the configured
    /// one (the id allocator's cursor may have been left beyond it for good)
    pub limit_ever_lowered: bool,
    /// the id the allocator handed out last (0 after a wrap), as far as the calls show it
    pub last_issued: u16,
    /// a CONNACK lowered the limit to or below the id handed out last (the situation the v5 allocator's
    /// `next == limit` wrap test cannot recover from)
    pub lowered_to_or_below_last_id: bool,
    /// how the publish written last got to the wire
    pub last_publish_via: Option<Via>,
    pub manual: bool,
    /// `EventLoop.pending`
    pub pending: VecDeque<M::Req>,
    pub connected: bool,
    pub conn: u32,
    /// a call panicked: the object is never stepped again
    pub dead: bool,
    /// packets that reached the wire on the current connection, in order
    pub wire: Vec<Pk>,
    /// replies of the current read batch, fed but not flushed
    wbuf: Vec<Pk>,
    pub calls: u64,
}

impl<M: Machine> S2<M> {
    pub fn new(limit: u16, manual: bool) -> S2<M> {
        S2 {
            st: M::new(limit, manual),
            ver: M::VER,
            limit_cfg: limit,
            limit_eff: limit,
            limit_ever_lowered: false,
            last_issued: 0,
            lowered_to_or_below_last_id: false,
            last_publish_via: None,
            manual,
            pending: VecDeque::new(),
            connected: true,
            conn: 0,
            dead: false,
            wire: vec![],
            wbuf: vec![],
            calls: 0,
        }
    }

    /// the condition under which `select()` enables the request branch for a *new* request
    pub fn gate_open(&self) -> bool {
        self.st.inflight() < self.limit_eff && self.st.collision().is_none()
    }

    fn call(&mut self, via: Via, input: Pk, f: impl FnOnce(&mut M) -> Result<Option<Pk>, SErr>) -> Call {
        assert!(!self.dead, "harness: stepping a state machine that panicked");
        let n0 = self.st.events_len();
        self.calls += 1;
        let st = &mut self.st;
        let outcome = match guarded(|| f(st)) {
            Ok(Ok(o)) => Outcome::Ok(o),
            Ok(Err(e)) => Outcome::Err(e),
            Err(p) => {
                self.dead = true;
                Outcome::Panic(p)
            }
        };
        let events = if self.dead { vec![] } else { self.st.events_from(n0) };
        Call {
            via,
            input,
            outcome,
            events,
            conn: self.conn,
        }
    }

    /// request branch / keep-alive branch: the returned packet is written and flushed at once
    fn outgoing(&mut self, via: Via, req: M::Req) -> Call {
        let view = M::view_req(&req);
        let c = self.call(via, view, |st| st.handle_outgoing(req));
        if let Outcome::Ok(Some(p)) = &c.outcome {
            self.wire.push(p.clone());
            if matches!(p, Pk::Publish { qos, .. } if *qos > 0) {
                self.last_publish_via = Some(via);
            }
        }
        if via != Via::Replay && !self.dead {
            // what the allocator handed out: on the packet, or on the publish it parked
            let id = match &c.outcome {
                // (only these draw an id; a manual PUBACK / PUBREC request carries the broker's id)
                Outcome::Ok(Some(p)) if p.pkid() != 0 && matches!(p, Pk::Publish { .. } | Pk::Subscribe { .. } | Pk::Unsubscribe { .. }) => Some(p.pkid()),
                Outcome::Ok(None) => self.st.collision().map(|p| p.pkid()).filter(|i| *i != 0),
                _ => None,
            };
            if let Some(id) = id {
                // (the v5 allocator wraps only when the id it hands out *equals* the limit; 3.1.1 likewise)
                self.last_issued = if id == self.limit_eff { 0 } else { id };
            }
        }
        c
    }

    /// A new user request. `None` = the event loop would not have taken it now (gate closed,
    /// pending not drained, or not connected).
    pub fn request(&mut self, p: &Pk) -> Option<Call> {
        if !self.connected || !self.pending.is_empty() || !self.gate_open() {
            return None;
        }
        Some(self.outgoing(Via::Request, M::make_req(p)))
    }

    /// One carried-over request: `select()` enables the request branch for `pending` whatever
    /// the window says, but not while a collision is parked
    /// (`!collision && (!pending.is_empty() || !inflight_full)`)
    pub fn replay_one(&mut self) -> Option<Call> {
        if !self.connected || self.st.collision().is_some() {
            return None;
        }
        let req = self.pending.pop_front()?;
        Some(self.outgoing(Via::Replay, req))
    }

    pub fn ping(&mut self) -> Option<Call> {
        if !self.connected {
            return None;
        }
        Some(self.outgoing(Via::Ping, M::make_req(&Pk::PingReq)))
    }

    /// One packet of a read batch. The reply goes to the batch's write buffer.
    pub fn read_one(&mut self, p: &Pk) -> Call {
        let c = self.call(Via::Read, p.clone(), |st| st.handle_incoming(p));
        if let Outcome::Ok(Some(r)) = &c.outcome {
            self.wbuf.push(r.clone());
        }
        if let (Ver::V5, true, Pk::ConnAck { receive_max: Some(rm), .. }) = (self.ver, c.outcome.is_ok(), p) {
            self.limit_eff = (*rm).min(self.limit_cfg);
            self.limit_ever_lowered |= self.limit_eff < self.limit_cfg;
            self.lowered_to_or_below_last_id |= self.last_issued >= self.limit_eff;
            if std::env::var("VERIF_DEBUG_MODEL").is_ok() {
                eprintln!("    s2: limit in force {} (configured {}), id handed out last {}", self.limit_eff, self.limit_cfg, self.last_issued);
            }
        }
        c
    }

    /// End of a read batch: flush if every packet was handled, else the buffer dies with the
    /// network (`poll()` calls `clean()` on any error; the caller does that with `fail()`).
    pub fn end_batch(&mut self, ok: bool) -> BatchEnd {
        let buf = std::mem::take(&mut self.wbuf);
        if ok {
            self.wire.extend(buf.iter().cloned());
            BatchEnd::Flushed(buf)
        } else {
            BatchEnd::Dropped(buf)
        }
    }

    /// `EventLoop::clean()`: network dropped, unacknowledged work moved to `pending`
    pub fn fail(&mut self) -> Result<(), PanicInfo> {
        assert!(!self.dead);
        self.connected = false;
        self.wbuf.clear();
        let st = &mut self.st;
        match guarded(|| st.clean()) {
            Ok(reqs) => {
                // what was in flight on this connection goes in front of what is still pending
                // from an earlier one (eventloop.rs clean())
                let mut p: VecDeque<M::Req> = reqs.into();
                p.append(&mut self.pending);
                self.pending = p;
                Ok(())
            }
            Err(p) => {
                self.dead = true;
                Err(p)
            }
        }
    }

    /// `poll()` on a dropped network, first half: the CONNACK has arrived; `pending` is cleared
    /// when the broker has no session and the network is installed.
    pub fn reconnect_begin(&mut self, session_present: bool) {
        assert!(!self.connected && !self.dead);
        if !session_present {
            self.pending.clear();
            // the 3.1.1 event loop starts packet ids over together with the session
            self.st.session_reset(self.limit_cfg, self.manual);
        }
        self.connected = true;
        self.conn += 1;
        self.wire.clear();
    }

    /// second half, v5 only: `poll()` hands the CONNACK to the state machine (v4 returns it to
    /// the user without touching the state)
    pub fn reconnect_connack(&mut self, connack: &Pk) -> Option<Call> {
        if self.ver != Ver::V5 {
            return None;
        }
        let c = self.call(Via::ConnAck, connack.clone(), |st| st.handle_incoming(connack));
        if let (true, Pk::ConnAck { receive_max: Some(rm), .. }) = (c.outcome.is_ok(), connack) {
            self.limit_eff = (*rm).min(self.limit_cfg);
            self.limit_ever_lowered |= self.limit_eff < self.limit_cfg;
            self.lowered_to_or_below_last_id |= self.last_issued >= self.limit_eff;
            if std::env::var("VERIF_DEBUG_MODEL").is_ok() {
                eprintln!("    s2: limit in force {} (configured {}), id handed out last {}", self.limit_eff, self.limit_cfg, self.last_issued);
            }
        }
        Some(c)
    }

    /// v5 first connection: the CONNACK of connection 0 (may carry receive_max / alias max)
    pub fn first_connack(&mut self, connack: &Pk) -> Option<Call> {
        if self.ver != Ver::V5 {
            return None;
        }
        let c = self.call(Via::ConnAck, connack.clone(), |st| st.handle_incoming(connack));
        if let (true, Pk::ConnAck { receive_max: Some(rm), .. }) = (c.outcome.is_ok(), connack) {
            self.limit_eff = (*rm).min(self.limit_cfg);
            self.limit_ever_lowered |= self.limit_eff < self.limit_cfg;
            self.lowered_to_or_below_last_id |= self.last_issued >= self.limit_eff;
            if std::env::var("VERIF_DEBUG_MODEL").is_ok() {
                eprintln!("    s2: limit in force {} (configured {}), id handed out last {}", self.limit_eff, self.limit_cfg, self.last_issued);
            }
        }
        Some(c)
    }

    /// the event loop hands queued events to the user before it does anything else
    pub fn drain_events(&mut self) {
        self.st.drain_events();
    }
}

/// What the state machine holds for retransmission, read without disturbing it:
/// `ids(state.clone().clean())`
#[derive(Clone, Debug, Default, PartialEq, Eq)]
pub struct Held {
    /// publishes in `outgoing_pub`, in `clean()` order
    pub pubs: Vec<Pk>,
    /// packet ids with a pending release, in `clean()` order
    pub rels: Vec<u16>,
}

pub fn held_of<M: Machine>(st: &M) -> Result<Held, PanicInfo> {
    let mut c = st.clone();
    let reqs = guarded(move || c.clean())?;
    let mut h = Held::default();
    // `clean()` may hand the parked collision over with the rest; it is reported separately
    // (`collision()`), so it is not counted among the publishes that were written
    let mut parked = st.collision();
    for r in reqs {
        match M::view_req(&r) {
            p @ Pk::Publish { .. } => {
                if parked.as_ref() == Some(&p) {
                    parked = None;
                    continue;
                }
                h.pubs.push(p)
            }
            Pk::PubRel { pkid, .. } => h.rels.push(pkid),
            _ => {}
        }
    }
    Ok(h)
}
