//! Execution substrate **S3** (DESIGN.md 2.2, 2.6, Appendix B): the real
//! `rumqttc::EventLoop::poll()` / `rumqttc::v5::EventLoop::poll()` running against a scripted
//! hostile broker over an in-memory duplex pipe, everything inside **one current-thread tokio
//! runtime with paused (virtual) time**, connected through the transport hook
//! `rumqttc::verif::register(addr, connector)`.
//!
//! # How to use it
//!
//! ```ignore
//! use crate::sub::s3::*;
//! let mut scn = Scenario::new(Ver::V4);                 // defaults: K = 5 s, inflight 10, …
//! scn.opts.keep_alive_s = 5;
//! scn.conns = vec![                                      // one plan per consecutive connection
//!     ConnPlan { policy: ConnPolicy::normal(false), fault: Fault::c2b(57) },
//!     ConnPlan { policy: ConnPolicy::normal(true),  fault: Fault::NONE },
//! ];
//! scn.user = vec![                                       // the scripted user of the AsyncClient
//!     UserStep { when: When::AfterConnAck(0), act: Act::publish(1, "t", "a:0") },
//!     UserStep { when: When::AtMs(1500),      act: Act::publish(1, "t", "a:1") },
//!     UserStep { when: When::AfterConnEnd(0), act: Act::publish(1, "t", "late:0") },
//! ];
//! scn.stop.when = vec![When::AfterEvent { conn: 1, incoming: false, kind: Kind::PingReq, nth: 0 }];
//! let log: RunLog = run(&scn);
//! ```
//!
//! `run` builds a fresh runtime, registers a connector under a process-unique address
//! (`verif-s3-<n>`), drives `poll()` in a loop on the runtime's main task and returns a
//! `RunLog`:
//!
//! * `polls`  – every `poll()` return (`Ok(Event)` or `Err`) with the virtual time of the call
//!   and of the return, the connection it belongs to, and a `Snap` of the public bookkeeping
//!   taken right after the return (`state.inflight()`, `state.collision`, `eventloop.pending`,
//!   `state.clone().clean()`, `state.events`, `await_pingresp`);
//! * `wire`   – every frame the scripted broker received (decoded with the **broker's** codec)
//!   or wrote, with virtual timestamps and cumulative byte offsets;
//! * `conns`  – per connection: byte totals of both directions (use a fault-free run to learn
//!   them, then enumerate `Fault::c2b(k)` / `Fault::b2c(k', _)`), where a fault fired, and the
//!   frames the client *tried* to write (`intended`, the last one possibly cut);
//! * `user`   – what the scripted user did and when;
//! * `panic` / `harness_error` – a panic of the code under test (with location) or a problem
//!   of the harness itself (→ inconclusive, never a verdict).
//!
//! # Rules the substrate enforces
//!
//! * A `poll()` future is **never cancelled**: the loop awaits every `poll()` to completion.
//!   Termination is guaranteed by `Scenario.horizon_ms`: at that virtual time the broker closes
//!   every pipe and refuses further connects, so the pending `poll()` returns an `Err`, and the
//!   runner stops at the first return at or after the horizon. Waiting is free under paused
//!   time.
//! * Reconnect = calling `poll()` again after an `Err`; the n-th connector call gets
//!   `conns[min(n, len-1)]`.
//! * `tokio::select!` inside `EventLoop::select` picks a *random* ready branch when two are
//!   ready at the same virtual instant (DESIGN.md 5). Scenarios whose verdict depends on an
//!   exact tie must not be judged; use K−1 ms / K+1 ms. Everything else is deterministic.
//! * User steps with `When::AtMs` run on a separate task (they wake a blocked `poll()` through
//!   the request channel); all other `When`s are executed by the runner between two `poll()`
//!   calls. Requests are issued with the non-blocking `try_*` calls of the real `AsyncClient`.
pub mod broker;
pub mod stream;
pub mod wire;

pub use broker::{
    Accept, BrokerLog, Burst, ConnAckRule, ConnEvent, ConnEventKind, ConnPolicy, Ms, On, Reply, RuleSeq, WireEntry,
    REORDER_FLUSH_MS,
};
pub use stream::{Dir, EndKind, Fault, FaultyStream, IoCount};
pub use wire::{Codec, Decoded, Frame, Kind, Pk, Ver};

use crate::common::{guarded, PanicInfo};
use serde::Serialize;
use std::future::Future;
use std::sync::atomic::{AtomicU64, Ordering};
use std::sync::{Arc, Mutex};
use std::time::Duration;
use tokio::time::Instant;

// ---------------------------------------------------------------- scenario

/// Client options common to both versions (v5: `inflight` = outgoing inflight upper limit,
/// `clean_session` = clean_start)
#[derive(Clone, Debug, Serialize)]
pub struct ClientOpts {
    pub client_id: String,
    /// v4: 0 or ≥ 1; v5: ≥ 5 (the options assert this)
    pub keep_alive_s: u64,
    pub clean_session: bool,
    pub inflight: u16,
    pub manual_acks: bool,
    pub conn_timeout_s: u64,
    /// capacity of the request channel between `AsyncClient` and `EventLoop`
    pub channel_cap: usize,
    pub pending_throttle_us: u64,
}

#[derive(Clone, Debug)]
pub struct ConnPlan {
    pub policy: ConnPolicy,
    pub fault: Fault,
}

impl ConnPlan {
    pub fn normal(session_present: bool) -> ConnPlan {
        ConnPlan {
            policy: ConnPolicy::normal(session_present),
            fault: Fault::NONE,
        }
    }
}

/// A point of a run. Used both to trigger user steps and to stop the run.
#[derive(Clone, Debug, PartialEq, Eq, Serialize)]
pub enum When {
    /// before the first `poll()`
    BeforeStart,
    /// user step: at this absolute virtual time (separate task). Stop: first return at/after it.
    AtMs(Ms),
    /// right after the `poll()` return with this index (0-based)
    AfterPoll(usize),
    /// right after `poll()` returned the CONNACK of connection `conn`
    AfterConnAck(usize),
    /// right after the `Err` that ended connection `conn` (or its connect attempt)
    AfterConnEnd(usize),
    /// right after the n-th (0-based) `Err` return of the run
    AfterErr(usize),
    /// right after the nth (0-based) event of that direction and kind on connection `conn`
    AfterEvent {
        conn: usize,
        incoming: bool,
        kind: Kind,
        nth: usize,
    },
}

#[derive(Clone, Debug, PartialEq, Eq, Serialize)]
pub enum Act {
    Publish {
        qos: u8,
        topic: String,
        payload: String,
        retain: bool,
    },
    Subscribe {
        filter: String,
        qos: u8,
    },
    Unsubscribe {
        filter: String,
    },
    /// manual acknowledgement of a received publish (manual_acks mode)
    Ack {
        qos: u8,
        pkid: u16,
    },
    Disconnect,
}

impl Act {
    pub fn publish(qos: u8, topic: &str, payload: &str) -> Act {
        Act::Publish {
            qos,
            topic: topic.to_owned(),
            payload: payload.to_owned(),
            retain: false,
        }
    }
    pub fn kind(&self) -> &'static str {
        match self {
            Act::Publish { .. } => "publish",
            Act::Subscribe { .. } => "subscribe",
            Act::Unsubscribe { .. } => "unsubscribe",
            Act::Ack { .. } => "ack",
            Act::Disconnect => "disconnect",
        }
    }
}

#[derive(Clone, Debug, Serialize)]
pub struct UserStep {
    pub when: When,
    pub act: Act,
}

/// The run stops after the first `poll()` return that matches any of `when`, at the horizon,
/// or (harness error) after `max_polls` returns.
#[derive(Clone, Debug, Serialize)]
pub struct Stop {
    pub when: Vec<When>,
    pub max_polls: usize,
}

/// How much bookkeeping to copy after every `poll()` return
#[derive(Clone, Copy, Debug, PartialEq, Eq, Serialize)]
pub enum SnapLevel {
    /// counters only (`inflight`, `collision`, `await_pingresp`, lengths)
    Light,
    /// + `pending`, `state.clone().clean()` and `state.events` reduced to `Req`/`Ev` lists
    /// (clones the state: avoid with inflight limits in the thousands)
    Full,
}

#[derive(Clone, Debug)]
pub struct Scenario {
    pub ver: Ver,
    pub opts: ClientOpts,
    /// plan of the n-th connection attempt; the last one repeats
    pub conns: Vec<ConnPlan>,
    pub user: Vec<UserStep>,
    pub stop: Stop,
    /// absolute virtual ms at which everything is shut down (mandatory wake-up source)
    pub horizon_ms: Ms,
    pub snap: SnapLevel,
}

impl Scenario {
    pub fn new(ver: Ver) -> Scenario {
        Scenario {
            ver,
            opts: ClientOpts {
                client_id: "verif".into(),
                keep_alive_s: 5,
                clean_session: false,
                inflight: 10,
                manual_acks: false,
                conn_timeout_s: 5,
                channel_cap: 256,
                pending_throttle_us: 0,
            },
            conns: vec![ConnPlan::normal(false)],
            user: vec![],
            stop: Stop {
                when: vec![],
                max_polls: 100_000,
            },
            horizon_ms: 600_000,
            snap: SnapLevel::Full,
        }
    }
}

// ---------------------------------------------------------------- observations

/// A request held by the client (in `pending`, in the state's tables, or parked as collision)
#[derive(Clone, Debug, PartialEq, Eq, Serialize)]
pub struct Req {
    /// Publish, PubRel, Subscribe, Unsubscribe, PubAck, PubRec, Disconnect, Other
    pub kind: Kind,
    pub pkid: u16,
    pub qos: u8,
    pub topic: String,
    pub payload: String,
    pub filters: Vec<String>,
}

/// One `poll()` event: `Event::Incoming(packet)` / `Event::Outgoing(outgoing)` reduced to `Pk`.
/// For outgoing events only `kind` and `pkid` are known (that is all `Outgoing` carries).
#[derive(Clone, Debug, PartialEq, Eq, Serialize)]
pub struct Ev {
    pub incoming: bool,
    pub pk: Pk,
}

#[derive(Clone, Debug, PartialEq, Eq, Serialize)]
pub enum ErrClass {
    /// keep-alive failure: the previous PINGREQ was not answered
    AwaitPingResp,
    CollisionTimeout,
    Unsolicited(u16),
    /// peer closed (EOF)
    ConnectionAborted,
    /// transport error, with the `io::ErrorKind` as text
    Io(String),
    /// the connect/handshake timeout (`NetworkTimeout` in v4, `Timeout(Elapsed)` in v5)
    ConnectTimeout,
    FlushTimeout,
    ConnectionRefused,
    NotConnAck,
    RequestsDone,
    Deserialization,
    WrongPacket,
    /// v5: DISCONNECT from the server
    ServerDisconnect,
    Other,
}

#[derive(Clone, Debug, PartialEq, Eq, Serialize)]
pub struct ErrSum {
    pub class: ErrClass,
    /// `{:?}` of the `ConnectionError`
    pub text: String,
}

#[derive(Clone, Debug, Serialize)]
pub enum PollOut {
    Ev(Ev),
    Err(ErrSum),
}

/// Public bookkeeping of the event loop right after a `poll()` return
#[derive(Clone, Debug, Default, Serialize)]
pub struct Snap {
    pub inflight: u16,
    /// packet id of `state.collision`
    pub collision: Option<u16>,
    pub collision_payload: Option<String>,
    pub await_pingresp: bool,
    pub pending_len: usize,
    pub queued_events_len: usize,
    /// `eventloop.pending`, front first (Full only)
    pub pending: Vec<Req>,
    /// `eventloop.state.clone().clean()` (Full only)
    pub held: Vec<Req>,
    /// `eventloop.state.events`, front first (Full only)
    pub queued_events: Vec<Ev>,
}

#[derive(Clone, Debug, Serialize)]
pub struct PollRec {
    pub idx: usize,
    /// virtual time at which `poll()` was called / returned
    pub called: Ms,
    pub at: Ms,
    /// connection index (count of connector calls − 1) at return time; None before any connect
    pub conn: Option<usize>,
    pub out: PollOut,
    pub snap: Snap,
}

impl PollRec {
    pub fn ev(&self) -> Option<&Ev> {
        match &self.out {
            PollOut::Ev(e) => Some(e),
            PollOut::Err(_) => None,
        }
    }
    pub fn err(&self) -> Option<&ErrSum> {
        match &self.out {
            PollOut::Err(e) => Some(e),
            PollOut::Ev(_) => None,
        }
    }
    pub fn is(&self, incoming: bool, kind: Kind) -> bool {
        self.ev().map(|e| e.incoming == incoming && e.pk.kind == kind).unwrap_or(false)
    }
    pub fn brief(&self) -> String {
        match &self.out {
            PollOut::Ev(e) => format!(
                "{}ms c{:?} {} {}",
                self.at,
                self.conn,
                if e.incoming { "<-" } else { "->" },
                e.pk.brief()
            ),
            PollOut::Err(e) => format!("{}ms c{:?} Err {:?}", self.at, self.conn, e.class),
        }
    }
}

/// A frame the client tried to write (decoded from `IoCount.intended_c2b` with the broker's codec)
#[derive(Clone, Debug, Serialize)]
pub struct Intended {
    pub pk: Pk,
    /// byte offset of the end of this frame in the client→broker stream
    pub end_offset: u64,
    /// false: a fault cut this frame (the broker got only a prefix of it, or nothing)
    pub delivered: bool,
}

#[derive(Clone, Debug, Serialize)]
pub struct ConnRec {
    pub idx: usize,
    /// virtual time the connector was called / the pipe handed over (None: never resolved)
    pub connect_called: Ms,
    pub accepted: Option<Ms>,
    pub c2b_bytes: u64,
    pub b2c_bytes: u64,
    pub fault: Fault,
    pub fired: Option<(Dir, u64)>,
    pub fired_at: Option<Ms>,
    pub intended: Vec<Intended>,
    /// trailing bytes of `intended_c2b` that do not form a frame
    pub intended_leftover: usize,
}

#[derive(Clone, Debug, Serialize)]
pub struct UserRec {
    pub at: Ms,
    /// index into `Scenario.user`
    pub step: usize,
    /// number of `poll()` returns recorded when the action ran
    pub polls_before: usize,
    pub act: Act,
    /// `try_*` result
    pub ok: bool,
    pub err: String,
}

#[derive(Debug, Default)]
pub struct RunLog {
    pub ver: Option<Ver>,
    pub polls: Vec<PollRec>,
    pub wire: Vec<WireEntry>,
    pub conn_events: Vec<ConnEvent>,
    pub conns: Vec<ConnRec>,
    pub user: Vec<UserRec>,
    /// virtual time at which the run stopped
    pub end_ms: Ms,
    /// why the loop stopped: "stop-condition", "horizon", "max-polls"
    pub stopped_by: String,
    pub panic: Option<PanicInfo>,
    pub harness_error: Option<String>,
}

impl RunLog {
    /// frames of one connection and direction that were really written / received
    pub fn wire_of(&self, conn: usize, dir: Dir) -> impl Iterator<Item = &WireEntry> {
        self.wire.iter().filter(move |w| w.conn == conn && w.dir == dir && !w.suppressed)
    }
    pub fn polls_of(&self, conn: usize) -> impl Iterator<Item = &PollRec> {
        self.polls.iter().filter(move |p| p.conn == Some(conn))
    }
    /// the `Err` return that ended connection `conn` (or its connect attempt)
    pub fn end_of(&self, conn: usize) -> Option<&PollRec> {
        self.polls_of(conn).find(|p| p.err().is_some())
    }
    /// the CONNACK event of connection `conn`
    pub fn connack_of(&self, conn: usize) -> Option<&PollRec> {
        self.polls_of(conn).find(|p| p.is(true, Kind::ConnAck))
    }
    /// compact text rendering for samples / replay files
    pub fn brief(&self, max: usize) -> Vec<String> {
        let mut lines: Vec<(Ms, u8, String)> = vec![];
        for w in &self.wire {
            lines.push((
                w.at,
                0,
                format!(
                    "{}ms wire c{} {} {}{}",
                    w.at,
                    w.conn,
                    if w.dir == Dir::C2B { "C>B" } else { "B>C" },
                    w.pk.brief(),
                    if w.suppressed { " (withheld)" } else { "" }
                ),
            ));
        }
        for p in &self.polls {
            lines.push((p.at, 1, format!("{} [infl={} pend={}]", p.brief(), p.snap.inflight, p.snap.pending_len)));
        }
        for u in &self.user {
            lines.push((u.at, 2, format!("{}ms user {:?} ok={}", u.at, u.act, u.ok)));
        }
        for c in &self.conn_events {
            lines.push((c.at, 3, format!("{}ms conn c{} {:?}", c.at, c.conn, c.what)));
        }
        lines.sort_by(|a, b| (a.0, a.1).cmp(&(b.0, b.1)));
        lines.into_iter().take(max).map(|l| l.2).collect()
    }
}

// ---------------------------------------------------------------- client abstraction

/// The two real clients behind one interface. Nothing here re-implements client logic: every
/// method is a thin call into `rumqttc`.
#[allow(async_fn_in_trait)]
pub trait Cli {
    type El;
    type Client: Clone + Send + Sync + 'static;
    fn build(opts: &ClientOpts, addr: &str) -> (Self::Client, Self::El);
    async fn poll(el: &mut Self::El) -> PollOut;
    fn snap(el: &Self::El, level: SnapLevel) -> Snap;
    fn act(client: &Self::Client, act: &Act) -> Result<(), String>;
}

fn io_kind_of(text: &str) -> String {
    // ConnectionError's Debug prints the io::Error as `Kind(BrokenPipe)` / `Custom { kind: BrokenPipe, .. }`
    for k in [
        "BrokenPipe",
        "ConnectionReset",
        "ConnectionRefused",
        "ConnectionAborted",
        "UnexpectedEof",
        "TimedOut",
        "WriteZero",
    ] {
        if text.contains(k) {
            return k.to_owned();
        }
    }
    "other".to_owned()
}

pub mod v4 {
    //! MQTT 3.1.1 client
    use super::*;
    use rumqttc::{
        AsyncClient, ConnectionError, Event, EventLoop, MqttOptions, NetworkOptions, Outgoing, Packet, QoS, Request,
        StateError,
    };

    pub struct V4Cli;

    pub fn qos(q: u8) -> QoS {
        match q {
            0 => QoS::AtMostOnce,
            1 => QoS::AtLeastOnce,
            _ => QoS::ExactlyOnce,
        }
    }

    fn pub_pk(p: &rumqttc::Publish) -> Pk {
        let mut k = Pk::id(Kind::Publish, p.pkid);
        k.qos = p.qos as u8;
        k.dup = p.dup;
        k.retain = p.retain;
        k.topic = p.topic.clone();
        k.payload = String::from_utf8_lossy(&p.payload).into_owned();
        k
    }

    pub fn packet_pk(p: &Packet) -> Pk {
        match p {
            Packet::Connect(c) => {
                let mut k = Pk::of(Kind::Connect);
                k.topic = c.client_id.clone();
                k.keep_alive = c.keep_alive;
                k.flag = c.clean_session;
                k
            }
            Packet::ConnAck(a) => {
                let mut k = Pk::of(Kind::ConnAck);
                k.flag = a.session_present;
                k.code = if a.code == rumqttc::ConnectReturnCode::Success { 0 } else { 1 };
                k.note = format!("{:?}", a.code);
                k
            }
            Packet::Publish(p) => pub_pk(p),
            Packet::PubAck(a) => Pk::id(Kind::PubAck, a.pkid),
            Packet::PubRec(a) => Pk::id(Kind::PubRec, a.pkid),
            Packet::PubRel(a) => Pk::id(Kind::PubRel, a.pkid),
            Packet::PubComp(a) => Pk::id(Kind::PubComp, a.pkid),
            Packet::Subscribe(s) => {
                let mut k = Pk::id(Kind::Subscribe, s.pkid);
                k.filters = s.filters.iter().map(|f| f.path.clone()).collect();
                k
            }
            Packet::SubAck(a) => {
                let mut k = Pk::id(Kind::SubAck, a.pkid);
                k.note = format!("{:?}", a.return_codes);
                k
            }
            Packet::Unsubscribe(u) => {
                let mut k = Pk::id(Kind::Unsubscribe, u.pkid);
                k.filters = u.topics.clone();
                k
            }
            Packet::UnsubAck(a) => Pk::id(Kind::UnsubAck, a.pkid),
            Packet::PingReq => Pk::of(Kind::PingReq),
            Packet::PingResp => Pk::of(Kind::PingResp),
            Packet::Disconnect => Pk::of(Kind::Disconnect),
        }
    }

    pub fn outgoing_pk(o: &Outgoing) -> Pk {
        match o {
            Outgoing::Publish(id) => Pk::id(Kind::Publish, *id),
            Outgoing::Subscribe(id) => Pk::id(Kind::Subscribe, *id),
            Outgoing::Unsubscribe(id) => Pk::id(Kind::Unsubscribe, *id),
            Outgoing::PubAck(id) => Pk::id(Kind::PubAck, *id),
            Outgoing::PubRec(id) => Pk::id(Kind::PubRec, *id),
            Outgoing::PubRel(id) => Pk::id(Kind::PubRel, *id),
            Outgoing::PubComp(id) => Pk::id(Kind::PubComp, *id),
            Outgoing::PingReq => Pk::of(Kind::PingReq),
            Outgoing::PingResp => Pk::of(Kind::PingResp),
            Outgoing::Disconnect => Pk::of(Kind::Disconnect),
            Outgoing::AwaitAck(id) => Pk::id(Kind::AwaitAck, *id),
        }
    }

    pub fn event_ev(e: &Event) -> Ev {
        match e {
            Event::Incoming(p) => Ev {
                incoming: true,
                pk: packet_pk(p),
            },
            Event::Outgoing(o) => Ev {
                incoming: false,
                pk: outgoing_pk(o),
            },
        }
    }

    pub fn request_req(r: &Request) -> Req {
        let mut q = Req {
            kind: Kind::Other,
            pkid: 0,
            qos: 0,
            topic: String::new(),
            payload: String::new(),
            filters: vec![],
        };
        match r {
            Request::Publish(p) => {
                q.kind = Kind::Publish;
                q.pkid = p.pkid;
                q.qos = p.qos as u8;
                q.topic = p.topic.clone();
                q.payload = String::from_utf8_lossy(&p.payload).into_owned();
            }
            Request::PubRel(p) => {
                q.kind = Kind::PubRel;
                q.pkid = p.pkid;
            }
            Request::PubAck(p) => {
                q.kind = Kind::PubAck;
                q.pkid = p.pkid;
            }
            Request::PubRec(p) => {
                q.kind = Kind::PubRec;
                q.pkid = p.pkid;
            }
            Request::Subscribe(s) => {
                q.kind = Kind::Subscribe;
                q.pkid = s.pkid;
                q.filters = s.filters.iter().map(|f| f.path.clone()).collect();
            }
            Request::Unsubscribe(u) => {
                q.kind = Kind::Unsubscribe;
                q.pkid = u.pkid;
                q.filters = u.topics.clone();
            }
            Request::Disconnect(_) => q.kind = Kind::Disconnect,
            _ => {}
        }
        q
    }

    pub fn classify(e: &ConnectionError) -> ErrSum {
        let text = format!("{e:?}");
        let class = match e {
            ConnectionError::MqttState(s) => match s {
                StateError::AwaitPingResp => ErrClass::AwaitPingResp,
                StateError::CollisionTimeout => ErrClass::CollisionTimeout,
                StateError::Unsolicited(id) => ErrClass::Unsolicited(*id),
                StateError::ConnectionAborted => ErrClass::ConnectionAborted,
                StateError::WrongPacket => ErrClass::WrongPacket,
                StateError::Io(_) => ErrClass::Io(io_kind_of(&text)),
                StateError::Deserialization(rumqttc::mqttbytes::Error::Io(_)) => ErrClass::Io(io_kind_of(&text)),
                StateError::Deserialization(_) => ErrClass::Deserialization,
                _ => ErrClass::Other,
            },
            ConnectionError::NetworkTimeout => ErrClass::ConnectTimeout,
            ConnectionError::FlushTimeout => ErrClass::FlushTimeout,
            ConnectionError::Io(_) => ErrClass::Io(io_kind_of(&text)),
            ConnectionError::ConnectionRefused(_) => ErrClass::ConnectionRefused,
            ConnectionError::NotConnAck(_) => ErrClass::NotConnAck,
            ConnectionError::RequestsDone => ErrClass::RequestsDone,
        };
        ErrSum { class, text }
    }

    impl Cli for V4Cli {
        type El = EventLoop;
        type Client = AsyncClient;

        fn build(o: &ClientOpts, addr: &str) -> (AsyncClient, EventLoop) {
            let mut m = MqttOptions::new(o.client_id.clone(), addr, 1883);
            m.set_keep_alive(Duration::from_secs(o.keep_alive_s));
            m.set_clean_session(o.clean_session);
            m.set_inflight(o.inflight);
            m.set_manual_acks(o.manual_acks);
            m.set_pending_throttle(Duration::from_micros(o.pending_throttle_us));
            let (c, mut el) = AsyncClient::new(m, o.channel_cap);
            let mut n = NetworkOptions::new();
            n.set_connection_timeout(o.conn_timeout_s);
            el.set_network_options(n);
            (c, el)
        }

        async fn poll(el: &mut EventLoop) -> PollOut {
            match el.poll().await {
                Ok(e) => PollOut::Ev(event_ev(&e)),
                Err(e) => PollOut::Err(classify(&e)),
            }
        }

        fn snap(el: &EventLoop, level: SnapLevel) -> Snap {
            let mut s = Snap {
                inflight: el.state.inflight(),
                collision: el.state.collision.as_ref().map(|p| p.pkid),
                collision_payload: el
                    .state
                    .collision
                    .as_ref()
                    .map(|p| String::from_utf8_lossy(&p.payload).into_owned()),
                await_pingresp: el.state.await_pingresp,
                pending_len: el.pending.len(),
                queued_events_len: el.state.events.len(),
                ..Snap::default()
            };
            if level == SnapLevel::Full {
                s.pending = el.pending.iter().map(request_req).collect();
                s.held = el.state.clone().clean().iter().map(request_req).collect();
                s.queued_events = el.state.events.iter().map(event_ev).collect();
            }
            s
        }

        fn act(c: &AsyncClient, act: &Act) -> Result<(), String> {
            let r = match act {
                Act::Publish {
                    qos: q,
                    topic,
                    payload,
                    retain,
                } => c.try_publish(topic.clone(), qos(*q), *retain, payload.clone().into_bytes()),
                Act::Subscribe { filter, qos: q } => c.try_subscribe(filter.clone(), qos(*q)),
                Act::Unsubscribe { filter } => c.try_unsubscribe(filter.clone()),
                Act::Ack { qos: q, pkid } => {
                    let mut p = rumqttc::Publish::new("ack", qos(*q), Vec::<u8>::new());
                    p.pkid = *pkid;
                    c.try_ack(&p)
                }
                Act::Disconnect => c.try_disconnect(),
            };
            r.map_err(|e| format!("{e:?}"))
        }
    }
}

pub mod v5 {
    //! MQTT 5 client
    use super::*;
    use rumqttc::v5::mqttbytes::v5::{ConnectReturnCode, Packet, Publish};
    use rumqttc::v5::mqttbytes::QoS;
    use rumqttc::v5::{AsyncClient, ConnectionError, Event, EventLoop, MqttOptions, Request, StateError};
    pub struct V5Cli;

    pub fn qos(q: u8) -> QoS {
        match q {
            0 => QoS::AtMostOnce,
            1 => QoS::AtLeastOnce,
            _ => QoS::ExactlyOnce,
        }
    }

    fn pub_pk(p: &Publish) -> Pk {
        let mut k = Pk::id(Kind::Publish, p.pkid);
        k.qos = p.qos as u8;
        k.dup = p.dup;
        k.retain = p.retain;
        k.topic = String::from_utf8_lossy(&p.topic).into_owned();
        k.payload = String::from_utf8_lossy(&p.payload).into_owned();
        k.props = p.properties.is_some();
        k
    }

    pub fn packet_pk(p: &Packet) -> Pk {
        match p {
            Packet::Connect(c, _, _) => {
                let mut k = Pk::of(Kind::Connect);
                k.topic = c.client_id.clone();
                k.keep_alive = c.keep_alive;
                k.flag = c.clean_start;
                k
            }
            Packet::ConnAck(a) => {
                let mut k = Pk::of(Kind::ConnAck);
                k.flag = a.session_present;
                k.code = if a.code == ConnectReturnCode::Success { 0 } else { 1 };
                k.note = format!("{:?}", a.code);
                k.props = a.properties.is_some();
                k
            }
            Packet::Publish(p) => pub_pk(p),
            Packet::PubAck(a) => {
                let mut k = Pk::id(Kind::PubAck, a.pkid);
                k.note = format!("{:?}", a.reason);
                k.code = if k.note == "Success" { 0 } else { 0x80 };
                k
            }
            Packet::PubRec(a) => {
                let mut k = Pk::id(Kind::PubRec, a.pkid);
                k.note = format!("{:?}", a.reason);
                k.code = if k.note == "Success" { 0 } else { 0x80 };
                k
            }
            Packet::PubRel(a) => {
                let mut k = Pk::id(Kind::PubRel, a.pkid);
                k.note = format!("{:?}", a.reason);
                k.code = if k.note == "Success" { 0 } else { 0x92 };
                k
            }
            Packet::PubComp(a) => {
                let mut k = Pk::id(Kind::PubComp, a.pkid);
                k.note = format!("{:?}", a.reason);
                k.code = if k.note == "Success" { 0 } else { 0x92 };
                k
            }
            Packet::Subscribe(s) => {
                let mut k = Pk::id(Kind::Subscribe, s.pkid);
                k.filters = s.filters.iter().map(|f| f.path.clone()).collect();
                k
            }
            Packet::SubAck(a) => {
                let mut k = Pk::id(Kind::SubAck, a.pkid);
                k.note = format!("{:?}", a.return_codes);
                k
            }
            Packet::Unsubscribe(u) => {
                let mut k = Pk::id(Kind::Unsubscribe, u.pkid);
                k.filters = u.filters.clone();
                k
            }
            Packet::UnsubAck(a) => Pk::id(Kind::UnsubAck, a.pkid),
            Packet::PingReq(_) => Pk::of(Kind::PingReq),
            Packet::PingResp(_) => Pk::of(Kind::PingResp),
            Packet::Disconnect(d) => {
                let mut k = Pk::of(Kind::Disconnect);
                k.note = format!("{:?}", d.reason_code);
                k
            }
            Packet::Auth(_) => Pk::of(Kind::Other),
        }
    }

    pub fn event_ev(e: &Event) -> Ev {
        match e {
            Event::Incoming(p) => Ev {
                incoming: true,
                pk: packet_pk(p),
            },
            Event::Outgoing(o) => Ev {
                incoming: false,
                pk: super::v4::outgoing_pk(o),
            },
        }
    }

    pub fn request_req(r: &Request) -> Req {
        let mut q = Req {
            kind: Kind::Other,
            pkid: 0,
            qos: 0,
            topic: String::new(),
            payload: String::new(),
            filters: vec![],
        };
        match r {
            Request::Publish(p) => {
                q.kind = Kind::Publish;
                q.pkid = p.pkid;
                q.qos = p.qos as u8;
                q.topic = String::from_utf8_lossy(&p.topic).into_owned();
                q.payload = String::from_utf8_lossy(&p.payload).into_owned();
            }
            Request::PubRel(p) => {
                q.kind = Kind::PubRel;
                q.pkid = p.pkid;
            }
            Request::PubAck(p) => {
                q.kind = Kind::PubAck;
                q.pkid = p.pkid;
            }
            Request::PubRec(p) => {
                q.kind = Kind::PubRec;
                q.pkid = p.pkid;
            }
            Request::Subscribe(s) => {
                q.kind = Kind::Subscribe;
                q.pkid = s.pkid;
                q.filters = s.filters.iter().map(|f| f.path.clone()).collect();
            }
            Request::Unsubscribe(u) => {
                q.kind = Kind::Unsubscribe;
                q.pkid = u.pkid;
                q.filters = u.filters.clone();
            }
            Request::Disconnect => q.kind = Kind::Disconnect,
            _ => {}
        }
        q
    }

    pub fn classify(e: &ConnectionError) -> ErrSum {
        let text = format!("{e:?}");
        let class = match e {
            ConnectionError::MqttState(s) => match s {
                StateError::AwaitPingResp => ErrClass::AwaitPingResp,
                StateError::CollisionTimeout => ErrClass::CollisionTimeout,
                StateError::Unsolicited(id) => ErrClass::Unsolicited(*id),
                StateError::ConnectionAborted => ErrClass::ConnectionAborted,
                StateError::WrongPacket => ErrClass::WrongPacket,
                StateError::Io(_) => ErrClass::Io(io_kind_of(&text)),
                StateError::Deserialization(rumqttc::v5::mqttbytes::Error::Io(_)) => {
                    ErrClass::Io(io_kind_of(&text))
                }
                StateError::Deserialization(_) => ErrClass::Deserialization,
                StateError::ServerDisconnect { .. } => ErrClass::ServerDisconnect,
                _ => ErrClass::Other,
            },
            ConnectionError::Timeout(_) => ErrClass::ConnectTimeout,
            ConnectionError::FlushTimeout => ErrClass::FlushTimeout,
            ConnectionError::Io(_) => ErrClass::Io(io_kind_of(&text)),
            ConnectionError::ConnectionRefused(_) => ErrClass::ConnectionRefused,
            ConnectionError::NotConnAck(_) => ErrClass::NotConnAck,
            ConnectionError::RequestsDone => ErrClass::RequestsDone,
        };
        ErrSum { class, text }
    }

    impl Cli for V5Cli {
        type El = EventLoop;
        type Client = AsyncClient;

        fn build(o: &ClientOpts, addr: &str) -> (AsyncClient, EventLoop) {
            let mut m = MqttOptions::new(o.client_id.clone(), addr, 1883);
            m.set_keep_alive(Duration::from_secs(o.keep_alive_s));
            m.set_clean_start(o.clean_session);
            m.set_outgoing_inflight_upper_limit(o.inflight);
            m.set_manual_acks(o.manual_acks);
            m.set_pending_throttle(Duration::from_micros(o.pending_throttle_us));
            m.set_connection_timeout(o.conn_timeout_s);
            AsyncClient::new(m, o.channel_cap)
        }

        async fn poll(el: &mut EventLoop) -> PollOut {
            match el.poll().await {
                Ok(e) => PollOut::Ev(event_ev(&e)),
                Err(e) => PollOut::Err(classify(&e)),
            }
        }

        fn snap(el: &EventLoop, level: SnapLevel) -> Snap {
            let mut s = Snap {
                inflight: el.state.inflight(),
                collision: el.state.collision.as_ref().map(|p| p.pkid),
                collision_payload: el
                    .state
                    .collision
                    .as_ref()
                    .map(|p| String::from_utf8_lossy(&p.payload).into_owned()),
                await_pingresp: el.state.await_pingresp,
                pending_len: el.pending.len(),
                queued_events_len: el.state.events.len(),
                ..Snap::default()
            };
            if level == SnapLevel::Full {
                s.pending = el.pending.iter().map(request_req).collect();
                s.held = el.state.clone().clean().iter().map(request_req).collect();
                s.queued_events = el.state.events.iter().map(event_ev).collect();
            }
            s
        }

        fn act(c: &AsyncClient, act: &Act) -> Result<(), String> {
            let r = match act {
                Act::Publish {
                    qos: q,
                    topic,
                    payload,
                    retain,
                } => c.try_publish(topic.clone(), qos(*q), *retain, payload.clone().into_bytes()),
                Act::Subscribe { filter, qos: q } => c.try_subscribe(filter.clone(), qos(*q)),
                Act::Unsubscribe { filter } => c.try_unsubscribe(filter.clone()),
                Act::Ack { qos: q, pkid } => {
                    let mut p = Publish::new("ack", qos(*q), Vec::<u8>::new(), None);
                    p.pkid = *pkid;
                    c.try_ack(&p)
                }
                Act::Disconnect => c.try_disconnect(),
            };
            r.map_err(|e| format!("{e:?}"))
        }
    }
}

// ---------------------------------------------------------------- the run

static NEXT_ADDR: AtomicU64 = AtomicU64::new(0);

/// State shared between the connector (called from inside `poll()`), the broker tasks and the
/// runner
struct Shared {
    conns: Vec<ConnPlan>,
    horizon: Ms,
    ver: Ver,
    t0: Instant,
    /// number of connector calls so far
    calls: usize,
    io: Vec<Arc<Mutex<IoCount>>>,
    meta: Vec<(Ms, Option<Ms>, Fault)>,
    log: Arc<Mutex<BrokerLog>>,
}

fn connector_for(shared: Arc<Mutex<Shared>>) -> rumqttc::verif::Connector {
    Arc::new(move || {
        let shared = shared.clone();
        let fut = async move {
            let (idx, plan, t0, horizon, ver, log, io) = {
                let mut s = shared.lock().unwrap();
                let idx = s.calls;
                s.calls += 1;
                let plan = s.conns[idx.min(s.conns.len() - 1)].clone();
                let io = Arc::new(Mutex::new(IoCount::default()));
                s.io.push(io.clone());
                let now = (Instant::now() - s.t0).as_millis() as Ms;
                s.meta.push((now, None, plan.fault));
                (idx, plan, s.t0, s.horizon, s.ver, s.log.clone(), io)
            };
            let now = || (Instant::now() - t0).as_millis() as Ms;
            if now() >= horizon {
                return Err(std::io::Error::new(
                    std::io::ErrorKind::ConnectionRefused,
                    "verif: past the horizon",
                ));
            }
            match plan.policy.accept {
                Accept::Never => {
                    std::future::pending::<()>().await;
                    unreachable!()
                }
                Accept::Refuse => {
                    return Err(std::io::Error::new(
                        std::io::ErrorKind::ConnectionRefused,
                        "verif: scripted refusal",
                    ))
                }
                Accept::After(d) => {
                    if d > 0 {
                        tokio::time::sleep(Duration::from_millis(d)).await;
                    }
                }
            }
            let (client_end, broker_end) = tokio::io::duplex(plan.policy.pipe_capacity.max(16));
            shared.lock().unwrap().meta[idx].1 = Some(now());
            tokio::spawn(broker::serve(idx, broker_end, plan.policy.clone(), ver, log, t0, horizon));
            let clock: Arc<dyn Fn() -> u64 + Send + Sync> =
                Arc::new(move || (Instant::now() - t0).as_millis() as u64);
            let stream = FaultyStream::new(client_end, plan.fault, io, clock);
            Ok(Box::new(stream) as rumqttc::verif::Stream)
        };
        Box::pin(fut) as rumqttc::verif::ConnectFuture
    })
}

struct Progress {
    polls: Vec<PollRec>,
    user: Vec<UserRec>,
    end_ms: Ms,
    stopped_by: String,
    harness_error: Option<String>,
}

fn matches_when(w: &When, rec: &PollRec, polls: &[PollRec], errs_so_far: usize) -> bool {
    match w {
        When::BeforeStart => false,
        When::AtMs(t) => rec.at >= *t,
        When::AfterPoll(i) => rec.idx == *i,
        When::AfterConnAck(c) => rec.conn == Some(*c) && rec.is(true, Kind::ConnAck),
        When::AfterConnEnd(c) => rec.conn == Some(*c) && rec.err().is_some(),
        When::AfterErr(n) => rec.err().is_some() && errs_so_far == *n + 1,
        When::AfterEvent {
            conn,
            incoming,
            kind,
            nth,
        } => {
            rec.conn == Some(*conn)
                && rec.is(*incoming, *kind)
                && polls
                    .iter()
                    .filter(|p| p.conn == Some(*conn) && p.is(*incoming, *kind))
                    .count()
                    == *nth + 1
        }
    }
}

async fn drive<C: Cli + 'static>(scn: &Scenario, addr: &str, shared: Arc<Mutex<Shared>>, progress: Arc<Mutex<Progress>>) {
    let t0 = shared.lock().unwrap().t0;
    let now = || (Instant::now() - t0).as_millis() as Ms;
    let (client, mut el) = C::build(&scn.opts, addr);

    let do_step = |i: usize, polls_before: usize| {
        let act = scn.user[i].act.clone();
        let r = C::act(&client, &act);
        progress.lock().unwrap().user.push(UserRec {
            at: now(),
            step: i,
            polls_before,
            act,
            ok: r.is_ok(),
            err: r.err().unwrap_or_default(),
        });
    };

    // timed user steps run on their own task, in time order
    let mut timed: Vec<(Ms, usize)> = scn
        .user
        .iter()
        .enumerate()
        .filter_map(|(i, s)| match s.when {
            When::AtMs(t) => Some((t, i)),
            _ => None,
        })
        .collect();
    timed.sort();
    if !timed.is_empty() {
        let client = client.clone();
        let steps = scn.user.clone();
        let progress = progress.clone();
        tokio::spawn(async move {
            for (t, i) in timed {
                tokio::time::sleep_until(t0 + Duration::from_millis(t)).await;
                let act = steps[i].act.clone();
                let r = C::act(&client, &act);
                let mut p = progress.lock().unwrap();
                let polls_before = p.polls.len();
                p.user.push(UserRec {
                    at: (Instant::now() - t0).as_millis() as Ms,
                    step: i,
                    polls_before,
                    act,
                    ok: r.is_ok(),
                    err: r.err().unwrap_or_default(),
                });
            }
        });
    }

    for (i, s) in scn.user.iter().enumerate() {
        if s.when == When::BeforeStart {
            do_step(i, 0);
        }
    }

    let mut done = vec![false; scn.user.len()];
    let mut errs = 0usize;
    loop {
        let called = now();
        let out = C::poll(&mut el).await;
        let at = now();
        let conn = shared.lock().unwrap().calls.checked_sub(1);
        let snap = C::snap(&el, scn.snap);
        if matches!(out, PollOut::Err(_)) {
            errs += 1;
        }
        let (rec, stop_hit, todo) = {
            let mut p = progress.lock().unwrap();
            let rec = PollRec {
                idx: p.polls.len(),
                called,
                at,
                conn,
                out,
                snap,
            };
            p.polls.push(rec.clone());
            let stop_hit = scn.stop.when.iter().any(|w| matches_when(w, &rec, &p.polls, errs));
            let mut todo = vec![];
            for (i, s) in scn.user.iter().enumerate() {
                if !done[i] && !matches!(s.when, When::AtMs(_) | When::BeforeStart) && matches_when(&s.when, &rec, &p.polls, errs)
                {
                    done[i] = true;
                    todo.push(i);
                }
            }
            (rec, stop_hit, todo)
        };
        for i in todo {
            do_step(i, rec.idx + 1);
        }
        let mut p = progress.lock().unwrap();
        p.end_ms = at;
        if stop_hit {
            p.stopped_by = "stop-condition".into();
            return;
        }
        if at >= scn.horizon_ms {
            p.stopped_by = "horizon".into();
            return;
        }
        if p.polls.len() >= scn.stop.max_polls {
            p.stopped_by = "max-polls".into();
            p.harness_error = Some(format!("run did not stop within {} poll() returns", scn.stop.max_polls));
            return;
        }
    }
}

fn block_on_paused<F: Future<Output = ()>>(f: F) -> Result<(), String> {
    let rt = tokio::runtime::Builder::new_current_thread()
        .enable_time()
        .start_paused(true)
        .build()
        .map_err(|e| format!("cannot build runtime: {e}"))?;
    rt.block_on(f);
    // dropping the runtime drops the broker / user tasks that are still parked
    drop(rt);
    Ok(())
}

/// Execute one scenario against the real client. Never panics: a panic of the code under
/// test is returned in `RunLog.panic` together with everything recorded before it.
pub fn run(scn: &Scenario) -> RunLog {
    let addr = format!("verif-s3-{}", NEXT_ADDR.fetch_add(1, Ordering::Relaxed));
    let progress = Arc::new(Mutex::new(Progress {
        polls: vec![],
        user: vec![],
        end_ms: 0,
        stopped_by: String::new(),
        harness_error: None,
    }));
    let broker_log = Arc::new(Mutex::new(BrokerLog::default()));
    let shared_slot: Arc<Mutex<Option<Arc<Mutex<Shared>>>>> = Arc::new(Mutex::new(None));

    let result = {
        let progress = progress.clone();
        let broker_log = broker_log.clone();
        let shared_slot = shared_slot.clone();
        let addr = addr.clone();
        guarded(move || {
            block_on_paused(async move {
                let shared = Arc::new(Mutex::new(Shared {
                    conns: if scn.conns.is_empty() {
                        vec![ConnPlan::normal(false)]
                    } else {
                        scn.conns.clone()
                    },
                    horizon: scn.horizon_ms,
                    ver: scn.ver,
                    t0: Instant::now(),
                    calls: 0,
                    io: vec![],
                    meta: vec![],
                    log: broker_log,
                }));
                *shared_slot.lock().unwrap() = Some(shared.clone());
                rumqttc::verif::register(&addr, connector_for(shared.clone()));
                match scn.ver {
                    Ver::V4 => drive::<v4::V4Cli>(scn, &addr, shared, progress).await,
                    Ver::V5 => drive::<v5::V5Cli>(scn, &addr, shared, progress).await,
                }
            })
        })
    };
    rumqttc::verif::unregister(&addr);

    let mut log = RunLog {
        ver: Some(scn.ver),
        ..RunLog::default()
    };
    match result {
        Ok(Ok(())) => {}
        Ok(Err(e)) => log.harness_error = Some(e),
        Err(p) => log.panic = Some(p),
    }
    {
        let mut p = progress.lock().unwrap();
        log.polls = std::mem::take(&mut p.polls);
        log.user = std::mem::take(&mut p.user);
        log.end_ms = p.end_ms;
        log.stopped_by = std::mem::take(&mut p.stopped_by);
        if log.harness_error.is_none() {
            log.harness_error = p.harness_error.take();
        }
    }
    {
        let mut b = broker_log.lock().unwrap();
        log.wire = std::mem::take(&mut b.wire);
        log.conn_events = std::mem::take(&mut b.events);
    }
    if let Some(shared) = shared_slot.lock().unwrap().take() {
        let s = shared.lock().unwrap();
        let codec = Codec { ver: scn.ver };
        for (idx, io) in s.io.iter().enumerate() {
            let io = io.lock().unwrap();
            let (frames, leftover) = codec.decode_all(&io.intended_c2b);
            let (called, accepted, fault) = s.meta[idx];
            log.conns.push(ConnRec {
                idx,
                connect_called: called,
                accepted,
                c2b_bytes: io.c2b,
                b2c_bytes: io.b2c,
                fault,
                fired: io.fired,
                fired_at: io.fired_at_ms,
                intended: frames
                    .into_iter()
                    .map(|(end, pk)| Intended {
                        pk,
                        end_offset: end,
                        delivered: end <= io.c2b,
                    })
                    .collect(),
                intended_leftover: leftover,
            });
        }
    }
    log
}
