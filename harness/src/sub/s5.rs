//! Substrate S5: the real `Router::spawn()` thread (production `run` loop, untouched) plus N OS
//! threads, each owning a real local link, hammering it concurrently. The schedule belongs to
//! the OS; verdicts are taken by an offline checker over the histories recorded at the client
//! boundary, at a *logical* quiescent point (router blocked in recv with every sent event
//! handled, every client drained and acknowledged) - never on wall-clock time.
use crate::common::{guarded, Record, Rng, Stats};
use crate::gen::dpkt::{mk_publish, parts};
use crate::model::mbroker::mm_matches;
use crate::sub::s4::router_config;
use flume::Sender;
use rumqttd::local::{LinkBuilder, LinkRx, LinkTx};
use rumqttd::protocol::{
    Filter, Packet, PingReq, PubAck, PubAckReason, PubComp, PubCompReason, PubRec, PubRecReason, PubRel, PubRelReason, QoS,
    RetainForwardRule, Subscribe,
};
use rumqttd::verif::{Ack, Event, IdleMarker};
use rumqttd::{Notification, Router, Strategy};
use serde_json::json;
use std::collections::{BTreeMap, BTreeSet, HashMap};
use std::sync::atomic::{AtomicBool, AtomicU64, Ordering};
use std::sync::{Arc, Barrier};
use std::time::{Duration, Instant};

#[derive(Clone, Debug)]
pub struct Plan {
    pub publishers: usize,
    pub subscribers: usize,
    pub group_members: usize,
    pub per_publisher: usize,
    pub hostile: bool,
    pub topics: Vec<&'static str>,
    pub filters: Vec<&'static str>,
}

#[derive(Clone, Debug)]
enum Obs {
    Forward { topic: String, payload: String, qos: u8, pkid: u16 },
    Ack(String, u16),
    Closed,
}

struct Shared {
    tx: Sender<(usize, Event)>,
    sent: AtomicU64,
    idle: Arc<IdleMarker>,
    stop: AtomicBool,
    /// incremented whenever a client receives or sends anything
    activity: AtomicU64,
    /// completed collect() calls per client thread
    polls: Vec<AtomicU64>,
}

impl Shared {
    fn notify(&self, id: usize) -> bool {
        self.sent.fetch_add(1, Ordering::SeqCst);
        self.tx.send((id, Event::DeviceData)).is_ok()
    }
    fn ready(&self, id: usize) -> bool {
        self.sent.fetch_add(1, Ordering::SeqCst);
        self.tx.send((id, Event::Ready)).is_ok()
    }
    /// router blocked in recv and every event sent so far handled (Connect events of LinkBuilder
    /// are counted by `connects`)
    fn router_idle(&self, connects: u64) -> bool {
        let handled = self.idle.events_handled.load(Ordering::SeqCst);
        let sent = self.sent.load(Ordering::SeqCst) + connects;
        handled >= sent && self.tx.is_empty()
    }
    /// (blocked in recv, completed turns): a router that is not blocked must have completed whole
    /// turns without any client seeing output before it counts as quiet (a shared-group member whose
    /// turn it is not keeps the router polling forever)
    fn router_progress(&self) -> (bool, u64) {
        (self.idle.blocked.load(Ordering::SeqCst), self.idle.turns.load(Ordering::SeqCst))
    }
}

fn jitter(rng: &mut Rng) {
    match rng.below(8) {
        0 => std::thread::sleep(Duration::from_micros(rng.range(1, 200))),
        1 | 2 => std::thread::yield_now(),
        _ => {}
    }
}

fn sub_packet(pkid: u16, path: &str, qos: u8) -> Packet {
    Packet::Subscribe(
        Subscribe {
            pkid,
            filters: vec![Filter {
                path: path.to_owned(),
                qos: crate::gen::dpkt::qos(qos),
                nolocal: false,
                preserve_retain: false,
                retain_forward_rule: RetainForwardRule::Never,
            }],
        },
        None,
    )
}

/// Collect what the router handed over; queue protocol answers. Returns observations.
fn collect(rx: &mut LinkRx, tx: &mut LinkTx, wait: Duration, shared: &Shared, id: usize, rng: &mut Rng, me: usize) -> Vec<Obs> {
    let out = collect_inner(rx, tx, wait, shared, id, rng);
    if !out.is_empty() {
        shared.activity.fetch_add(1, Ordering::SeqCst);
    }
    shared.polls[me].fetch_add(1, Ordering::SeqCst);
    out
}

fn collect_inner(rx: &mut LinkRx, tx: &mut LinkTx, wait: Duration, shared: &Shared, id: usize, rng: &mut Rng) -> Vec<Obs> {
    let mut out = vec![];
    let mut acks = vec![];
    let mut unsched = false;
    let deadline = Instant::now() + wait;
    loop {
        match rx.recv_deadline(deadline) {
            Ok(Some(n)) => match n {
                Notification::Forward(f) => {
                    let p = parts(&f.publish);
                    match p.qos {
                        1 => acks.push(Packet::PubAck(PubAck { pkid: p.pkid, reason: PubAckReason::Success }, None)),
                        2 => acks.push(Packet::PubRec(PubRec { pkid: p.pkid, reason: PubRecReason::Success }, None)),
                        _ => {}
                    }
                    out.push(Obs::Forward {
                        topic: String::from_utf8_lossy(&p.topic).into_owned(),
                        payload: String::from_utf8_lossy(&p.payload).into_owned(),
                        qos: p.qos,
                        pkid: p.pkid,
                    });
                }
                Notification::DeviceAck(a) => match a {
                    Ack::PubRec(r) | Ack::PubRecWithProperties(r, _) => {
                        acks.push(Packet::PubRel(PubRel { pkid: r.pkid, reason: PubRelReason::Success }, None));
                        out.push(Obs::Ack("PubRec".into(), r.pkid));
                    }
                    Ack::PubRel(r) | Ack::PubRelWithProperties(r, _) => {
                        acks.push(Packet::PubComp(PubComp { pkid: r.pkid, reason: PubCompReason::Success }, None));
                        out.push(Obs::Ack("PubRel".into(), r.pkid));
                    }
                    Ack::PubAck(r) | Ack::PubAckWithProperties(r, _) => out.push(Obs::Ack("PubAck".into(), r.pkid)),
                    Ack::PubComp(r) | Ack::PubCompWithProperties(r, _) => out.push(Obs::Ack("PubComp".into(), r.pkid)),
                    Ack::SubAck(r) | Ack::SubAckWithProperties(r, _) => out.push(Obs::Ack("SubAck".into(), r.pkid)),
                    Ack::UnsubAck(r) => out.push(Obs::Ack("UnsubAck".into(), r.pkid)),
                    Ack::PingResp(_) => out.push(Obs::Ack("PingResp".into(), 0)),
                    Ack::ConnAck(..) => out.push(Obs::Ack("ConnAck".into(), 0)),
                },
                Notification::Unschedule => unsched = true,
                _ => {}
            },
            Ok(None) => {}
            Err(rumqttd::local::LinkError::RecvTimeout(_)) => break,
            Err(_) => {
                out.push(Obs::Closed);
                break;
            }
        }
        if !acks.is_empty() && rng.chance(1, 3) {
            break;
        }
    }
    if !acks.is_empty() {
        {
            let mut b = tx.buffer();
            for a in acks {
                b.push_back(a);
            }
        }
        shared.notify(id);
    }
    if unsched {
        jitter(rng);
        shared.ready(id);
    }
    out
}

pub struct Outcome {
    pub records: Vec<Record>,
    pub forwards: u64,
    pub acks: u64,
    pub accepted: u64,
    pub streams: u64,
    pub inconclusive: Option<String>,
    pub sample: serde_json::Value,
}

/// One round: returns the offline checker's records (with the property each refutes)
pub fn round(seed: u64, plan: &Plan) -> Outcome {
    let mut rng = Rng::new(seed);
    let strategy = [Strategy::RoundRobin, Strategy::Random, Strategy::Sticky][rng.below(3) as usize].clone();
    let mut cfg = router_config(64, *rng.pick(&[1u64, 10, 200]), 4 * 1024 * 1024, 10);
    cfg.shared_subscriptions_strategy = strategy;
    let router = Router::new(0, cfg);
    let idle = router.verif_idle();
    let tx = router.spawn();
    let shared = Arc::new(Shared {
        tx: tx.clone(),
        sent: AtomicU64::new(0),
        idle,
        stop: AtomicBool::new(false),
        activity: AtomicU64::new(0),
        polls: (0..(plan.subscribers + plan.group_members + plan.publishers)).map(|_| AtomicU64::new(0)).collect(),
    });
    let n_sub = plan.subscribers;
    let n_grp = plan.group_members;
    let n_pub = plan.publishers;
    let barrier = Arc::new(Barrier::new(n_sub + n_grp + n_pub + 1));
    let done_pubs = Arc::new(AtomicU64::new(0));
    let mut handles = vec![];
    let connects = (n_sub + n_grp + n_pub) as u64;

    // ---- subscribers (plain) and shared-group members
    for s in 0..(n_sub + n_grp) {
        let shared = shared.clone();
        let barrier = barrier.clone();
        let is_member = s >= n_sub;
        let filter = if is_member { "a/+".to_owned() } else { plan.filters[s % plan.filters.len()].to_owned() };
        let qos = (s % 3) as u8;
        let seed = rng.next();
        let name = if is_member { format!("m{s}") } else { format!("s{s}") };
        let slow = s % 4 == 1;
        handles.push(std::thread::spawn(move || {
            let mut rng = Rng::new(seed);
            let mut log: Vec<Obs> = vec![];
            let (mut ltx, mut lrx, _ack) = LinkBuilder::new(&name, shared.tx.clone()).build().expect("link");
            let id = lrx.id();
            let path = if is_member { format!("$share/g5/{filter}") } else { filter.clone() };
            ltx.buffer().push_back(sub_packet(1, &path, qos));
            shared.notify(id);
            // wait for the SUBACK before publishers start
            let t0 = Instant::now();
            while !log.iter().any(|o| matches!(o, Obs::Ack(k, 1) if k == "SubAck")) {
                log.extend(collect(&mut lrx, &mut ltx, Duration::from_millis(20), &shared, id, &mut rng, s));
                if t0.elapsed() > Duration::from_secs(30) {
                    break;
                }
            }
            barrier.wait();
            while !shared.stop.load(Ordering::SeqCst) {
                if slow {
                    std::thread::sleep(Duration::from_micros(rng.range(50, 400)));
                }
                log.extend(collect(&mut lrx, &mut ltx, Duration::from_millis(5), &shared, id, &mut rng, s));
            }
            // final drain
            for _ in 0..3 {
                log.extend(collect(&mut lrx, &mut ltx, Duration::from_millis(5), &shared, id, &mut rng, s));
            }
            (name, path, qos, log, vec![])
        }));
    }
    // ---- publishers
    for p in 0..n_pub {
        let shared = shared.clone();
        let barrier = barrier.clone();
        let done = done_pubs.clone();
        let topics: Vec<String> = plan.topics.iter().map(|t| (*t).to_owned()).collect();
        let per = plan.per_publisher;
        let seed = rng.next();
        handles.push(std::thread::spawn(move || {
            let mut rng = Rng::new(seed);
            let me = n_sub + n_grp + p;
            let name = format!("p{p}");
            let mut log: Vec<Obs> = vec![];
            let mut sent: Vec<(String, String, u8, u16)> = vec![];
            let (mut ltx, mut lrx, _ack) = LinkBuilder::new(&name, shared.tx.clone()).build().expect("link");
            let id = lrx.id();
            barrier.wait();
            let mut pkid: u16 = 0;
            let mut i = 0;
            while i < per {
                let batch = rng.range(1, 8) as usize;
                {
                    let mut b = ltx.buffer();
                    for _ in 0..batch {
                        if i >= per {
                            break;
                        }
                        let topic = rng.pick(&topics).clone();
                        let qos = rng.below(3) as u8;
                        // QoS 2 publishes are accepted when released, i.e. later than QoS 0/1 publishes sent
                        // after them: per-publisher order is judged per class
                        let payload = format!("{name}{}:{i}", if qos == 2 { "x" } else { "" });
                        let id16 = if qos > 0 {
                            pkid = if pkid == u16::MAX { 1 } else { pkid + 1 };
                            pkid
                        } else {
                            0
                        };
                        b.push_back(Packet::Publish(mk_publish(false, qos, id16, false, topic.as_bytes(), payload.as_bytes()), None));
                        sent.push((topic, payload, qos, id16));
                        i += 1;
                    }
                    if rng.chance(1, 10) {
                        b.push_back(Packet::PingReq(PingReq));
                        sent.push(("".into(), "ping".into(), 9, 0));
                    }
                }
                shared.notify(id);
                jitter(&mut rng);
                log.extend(collect(&mut lrx, &mut ltx, Duration::from_micros(200), &shared, id, &mut rng, me));
            }
            // wait for every final acknowledgement
            let expect_final = sent.iter().filter(|s| s.2 == 1 || s.2 == 2).count();
            let t0 = Instant::now();
            loop {
                let finals = log.iter().filter(|o| matches!(o, Obs::Ack(k, _) if k == "PubAck" || k == "PubComp")).count();
                if finals >= expect_final {
                    break;
                }
                if t0.elapsed() > Duration::from_secs(60) || shared.stop.load(Ordering::SeqCst) {
                    // wall clock is never a verdict: mark the round inconclusive
                    sent.push((String::new(), "timeout".into(), 8, 0));
                    break;
                }
                log.extend(collect(&mut lrx, &mut ltx, Duration::from_millis(5), &shared, id, &mut rng, me));
            }
            done.fetch_add(1, Ordering::SeqCst);
            while !shared.stop.load(Ordering::SeqCst) {
                log.extend(collect(&mut lrx, &mut ltx, Duration::from_millis(5), &shared, id, &mut rng, me));
            }
            (name, String::new(), 0u8, log, sent)
        }));
    }
    // ---- hostile client: bad acks and reconnect storms under its own ids
    let hostile = if plan.hostile {
        let shared = shared.clone();
        let seed = rng.next();
        Some(std::thread::spawn(move || {
            let mut rng = Rng::new(seed);
            let mut conns = 0u64;
            while !shared.stop.load(Ordering::SeqCst) && conns < 400 {
                let name = format!("h{}", rng.below(3));
                let Ok((ltx, lrx, _)) = LinkBuilder::new(&name, shared.tx.clone()).build() else { break };
                shared.sent.fetch_add(1, Ordering::SeqCst); // its Connect event
                conns += 1;
                let id = lrx.id();
                ltx.buffer().push_back(sub_packet(1, "a/#", 1));
                shared.notify(id);
                jitter(&mut rng);
                if rng.chance(1, 2) {
                    ltx.buffer().push_back(Packet::PubAck(PubAck { pkid: 77, reason: PubAckReason::Success }, None));
                    shared.notify(id);
                } else {
                    shared.sent.fetch_add(1, Ordering::SeqCst);
                    let _ = shared.tx.send((id, Event::Disconnect));
                }
                jitter(&mut rng);
            }
            conns
        }))
    } else {
        None
    };

    barrier.wait();
    // ---- wait for logical quiescence
    let t0 = Instant::now();
    let mut inconclusive = None;
    // Logical quiescence: over an interval in which every client thread completed two more collect()
    // calls, nobody received or sent anything and the router was blocked with every event handled.
    let mut mark: Option<(u64, Vec<u64>, u64)> = None;
    loop {
        std::thread::sleep(Duration::from_millis(1));
        let pubs_done = done_pubs.load(Ordering::SeqCst) as usize == n_pub;
        let calm = pubs_done && hostile.as_ref().map(|h| h.is_finished()).unwrap_or(true) && shared.router_idle(connects);
        let act = shared.activity.load(Ordering::SeqCst);
        let polls: Vec<u64> = shared.polls.iter().map(|p| p.load(Ordering::SeqCst)).collect();
        let (blocked, turns) = shared.router_progress();
        match (&mark, calm) {
            (_, false) => mark = None,
            (None, true) => mark = Some((act, polls, turns)),
            (Some((a0, p0, t0)), true) => {
                if *a0 != act {
                    mark = Some((act, polls, turns));
                } else if polls.iter().zip(p0.iter()).all(|(now, then)| *now >= *then + 2) && (blocked || turns >= *t0 + 3) {
                    break;
                }
            }
        }
        if t0.elapsed() > Duration::from_secs(120) {
            inconclusive = Some("S5 watchdog: no logical quiescence within 120 s".to_owned());
            break;
        }
        if shared.tx.is_disconnected() {
            break;
        }
    }
    // the router's own view at the quiescent point (taken on the router thread between two steps)
    let (snap_tx, snap_rx) = flume::bounded(1);
    let snapshot = if shared.tx.send((0, Event::VerifSnapshot(snap_tx))).is_ok() {
        snap_rx.recv_timeout(Duration::from_secs(10)).ok()
    } else {
        None
    };
    let router_dead = shared.tx.is_disconnected() || shared.tx.send((usize::MAX, Event::SendMeters)).is_err();
    shared.stop.store(true, Ordering::SeqCst);
    let mut results = vec![];
    for h in handles {
        match h.join() {
            Ok(r) => results.push(r),
            Err(_) => inconclusive = Some("S5 client thread panicked".into()),
        }
    }
    if let Some(h) = hostile {
        let _ = h.join();
    }

    // ---------------------------------------------------------------- offline checker
    let mut records = vec![];
    if router_dead {
        records.push(Record::new("C03", "router-thread-dead", "the router thread terminated (channel closed) under concurrent load").fact("substrate", "S5"));
    }
    let mut accepted: Vec<(String, String)> = vec![]; // (topic, payload) of every publish, per-publisher order kept below
    let mut per_pub: HashMap<String, Vec<String>> = HashMap::new();
    let (mut n_fwd, mut n_ack) = (0u64, 0u64);
    if results.iter().any(|r| r.4.iter().any(|s| s.2 == 8)) && inconclusive.is_none() {
        inconclusive = Some("S5 watchdog: a publisher did not get its final acknowledgements within 60 s".into());
    }
    for (name, _, _, log, sent) in results.iter().filter(|r| r.0.starts_with('p')) {
        for (t, p, q, _) in sent.iter().filter(|s| s.2 <= 2) {
            accepted.push((t.clone(), p.clone()));
            per_pub.entry(name.clone()).or_default().push(p.clone());
            let _ = q;
        }
        // C06: acknowledgements of this publisher, in request order
        let mut owed: Vec<(String, u16)> = vec![];
        for (_, p, q, id) in sent.iter() {
            match q {
                1 => owed.push(("PubAck".into(), *id)),
                2 => owed.push(("PubRec".into(), *id)),
                9 if p == "ping" => owed.push(("PingResp".into(), 0)),
                _ => {}
            }
        }
        let got: Vec<(String, u16)> = log.iter().filter_map(|o| match o {
            Obs::Ack(k, id) if k == "PubAck" || k == "PubRec" || k == "PingResp" => Some((k.clone(), *id)),
            _ => None,
        }).collect();
        n_ack += got.len() as u64;
        if got != owed && inconclusive.is_none() {
            let first = got.iter().zip(owed.iter()).position(|(a, b)| a != b).unwrap_or(got.len().min(owed.len()));
            records.push(
                Record::new("C06", "reply-sequence-differs", format!("'{name}': replies differ from requests at position {first}: got {:?}, owed {:?} ({} vs {})", got.get(first), owed.get(first), got.len(), owed.len()))
                    .fact("substrate", "S5"),
            );
        }
        let comps = log.iter().filter(|o| matches!(o, Obs::Ack(k, _) if k == "PubComp")).count();
        let q2 = sent.iter().filter(|s| s.2 == 2).count();
        if comps != q2 && inconclusive.is_none() {
            records.push(Record::new("C06", "pubcomp-count", format!("'{name}': {q2} QoS 2 publishes released, {comps} PUBCOMP received")).fact("substrate", "S5"));
        }
        if log.iter().any(|o| matches!(o, Obs::Closed)) {
            records.push(Record::new("C14", "closed-without-cause", format!("well-behaved publisher '{name}' lost its connection")).fact("substrate", "S5").fact("context", "S5"));
        }
    }
    let all: BTreeSet<String> = accepted.iter().map(|x| x.1.clone()).collect();
    let topic_of: HashMap<String, String> = accepted.iter().map(|(t, p)| (p.clone(), t.clone())).collect();
    let mut streams: Vec<(String, Vec<String>)> = vec![];
    let mut group_seen: BTreeMap<String, String> = BTreeMap::new();
    let mut n_streams = 0;
    for (name, path, qos, log, _) in results.iter().filter(|r| !r.0.starts_with('p')) {
        let is_member = name.starts_with('m');
        let filter = path.strip_prefix("$share/g5/").unwrap_or(path).to_owned();
        let fwd: Vec<(String, String, u8)> = log.iter().filter_map(|o| match o {
            Obs::Forward { topic, payload, qos, .. } => Some((topic.clone(), payload.clone(), *qos)),
            _ => None,
        }).collect();
        n_fwd += fwd.len() as u64;
        n_streams += 1;
        if log.iter().any(|o| matches!(o, Obs::Closed)) {
            records.push(Record::new("C14", "closed-without-cause", format!("well-behaved subscriber '{name}' lost its connection")).fact("substrate", "S5").fact("context", "S5"));
            continue;
        }
        let mut seen = BTreeSet::new();
        let mut last_of: HashMap<String, usize> = HashMap::new();
        for (t, p, q) in fwd.iter() {
            let prop = if is_member { "C17" } else { "C01" };
            if !all.contains(p) {
                records.push(Record::new(prop, "spurious", format!("'{name}': forward '{p}' on '{t}' was never published")).fact("substrate", "S5"));
                continue;
            }
            if topic_of.get(p) != Some(t) || !mm_matches(t, &filter) {
                records.push(Record::new(prop, "no-matching-subscription", format!("'{name}': forward '{p}' on '{t}' does not belong to '{filter}'")).fact("substrate", "S5"));
            }
            if *q != *qos {
                records.push(Record::new(prop, "forward-qos-mismatch", format!("'{name}': forward QoS {q}, granted {qos}")).fact("substrate", "S5").fact("resubscribed_with_other_qos", false));
            }
            if !seen.insert(p.clone()) {
                records.push(Record::new(prop, if is_member { "shared-twice" } else { "duplicate" }, format!("'{name}': '{p}' delivered twice on '{path}'")).fact("substrate", "S5").fact("session_resumed", false));
            }
            // per-publisher FIFO
            let (pubname, idx) = p.split_once(':').map(|(a, b)| (a.to_owned(), b.parse::<usize>().unwrap_or(0))).unwrap_or_default();
            if let Some(prev) = last_of.get(&pubname) {
                if idx < *prev {
                    records.push(Record::new(prop, if is_member { "shared-out-of-order" } else { "gap" }, format!("'{name}': '{p}' after a later message of the same publisher")).fact("substrate", "S5").fact("session_resumed", false));
                }
            }
            last_of.insert(pubname, idx);
            if is_member {
                if let Some(other) = group_seen.insert(p.clone(), name.clone()) {
                    if &other != name {
                        records.push(Record::new("C17", "shared-twice", format!("group g5: '{p}' forwarded to '{other}' and to '{name}'")).fact("substrate", "S5").fact("same_member", false));
                    }
                }
            }
        }
        if !is_member && inconclusive.is_none() {
            let expected: BTreeSet<String> = accepted.iter().filter(|(t, _)| mm_matches(t, &filter)).map(|x| x.1.clone()).collect();
            let missing: Vec<&String> = expected.difference(&seen).collect();
            if !missing.is_empty() {
                records.push(
                    Record::new("C01", "undelivered", format!("'{name}': {} of {} messages on '{filter}' never arrived although the broker is idle (first '{}')", missing.len(), expected.len(), missing[0]))
                        .fact("substrate", "S5")
                        .fact("session_resumed", false),
                );
            }
            streams.push((filter.clone(), fwd.iter().map(|x| x.1.clone()).collect()));
        }
    }
    // shared group completeness (C17)
    if n_grp > 0 && inconclusive.is_none() {
        let expected: BTreeSet<String> = accepted.iter().filter(|(t, _)| mm_matches(t, "a/+")).map(|x| x.1.clone()).collect();
        let got: BTreeSet<String> = group_seen.keys().cloned().collect();
        let missing: Vec<&String> = expected.difference(&got).collect();
        if !missing.is_empty() {
            // same signature facts as on the stepped substrate, from the router's snapshot
            let (mut behind, mut turn_parked) = (false, false);
            if let Some(snap) = &snapshot {
                let g = snap.groups.iter().find(|g| g.name == "g5");
                let log = snap.logs.iter().find(|l| l.filter == "a/+");
                if let (Some(g), Some(l)) = (g, log) {
                    behind = g.cursor < l.next_offset;
                    let turn_conn = g.members.get(g.turn).and_then(|m| snap.connection_map.iter().find(|(c, _)| c == m).map(|(_, id)| *id));
                    turn_parked = turn_conn.map(|id| l.parked.iter().any(|(c, f)| *c == id && f == "$share/g5/a/+")).unwrap_or(false);
                }
            }
            records.push(
                Record::new("C17", "shared-undelivered", format!("group g5: {} of {} messages forwarded to no member although the broker is idle", missing.len(), expected.len()))
                    .fact("substrate", "S5")
                    .fact("group_cursor_behind_log", behind)
                    .fact("turn_member_request_parked", turn_parked)
                    .fact("group_name_on_several_filters", false),
            );
        }
    }
    // all streams embeddable in one total order: pairwise agreement on common messages
    for i in 0..streams.len() {
        for j in (i + 1)..streams.len() {
            let pos: HashMap<&String, usize> = streams[j].1.iter().enumerate().map(|(k, p)| (p, k)).collect();
            let mut last = None;
            for p in streams[i].1.iter() {
                if let Some(k) = pos.get(p) {
                    if let Some(l) = last {
                        if *k < l {
                            records.push(Record::new("C01", "streams-disagree-on-order", format!("subscribers on '{}' and '{}' saw '{p}' in different relative order", streams[i].0, streams[j].0)).fact("substrate", "S5"));
                            break;
                        }
                    }
                    last = Some(*k);
                }
            }
        }
    }
    let sample = json!({"substrate": "S5", "seed": seed, "publishers": n_pub, "subscribers": n_sub, "group_members": n_grp, "messages": accepted.len(), "forwards_observed": n_fwd});
    let _ = guarded(|| ());
    Outcome {
        records,
        forwards: n_fwd,
        acks: n_ack,
        accepted: accepted.len() as u64,
        streams: n_streams,
        inconclusive,
        sample,
    }
}

/// Run `rounds` rounds and fold the outcome into `stats`, judging only `property`
pub fn run_rounds(ctx: &crate::common::Ctx, stats: &mut Stats, rounds: u64, plan: &Plan) {
    let mut rng = Rng::new(ctx.seed ^ 0x55);
    for r in 0..rounds {
        let seed = rng.next();
        let out = round(seed, plan);
        stats.evaluations += 1;
        stats.opn("s5-forwards-observed", out.forwards);
        stats.opn("s5-acks-observed", out.acks);
        stats.opn("s5-messages-published", out.accepted);
        stats.oraclen("s5-stream-checks", out.streams);
        stats.corner("s5-round");
        stats.shapes.insert(crate::common::fnv(format!("s5-{r}-{}", out.forwards).as_bytes()));
        if let Some(i) = out.inconclusive {
            stats.add_extra("s5_inconclusive_rounds", 1);
            if stats.inconclusive.len() < 3 {
                stats.inconclusive.push(i);
            }
            continue;
        }
        if r == 0 {
            stats.sample(out.sample.clone());
        }
        if let Some(rec) = out.records.iter().find(|x| x.property == ctx.property) {
            let sample = out.sample.clone();
            crate::common::judge(ctx, stats, rec.clone(), || json!({"substrate": "S5", "case_seed": seed, "note": "threaded substrate: the schedule is not replayable; the record was taken from the recorded client-boundary history", "round": sample}));
        } else if let Some(rec) = out.records.first() {
            stats.add_extra(&format!("other_property_records.{}.{}", rec.property, rec.oracle), 1);
        }
    }
}
