//! Substrate S6: the full broker stack in memory.
//!
//! What runs is production code only: `Router::spawn()` (router thread) and, per connection,
//! the real per-connection task `server::broker::remote()` (admission `mqtt_connect`,
//! `RemoteLink`, `Network`, the listener's protocol, will handling) entered through the
//! guarded hook `Server::verif_accept`. One `Server` per listener; all listeners of a
//! `Broker` share one router. The connection tasks run on a multi-thread tokio runtime
//! (`Rt`) because `LinkBuilder::build()` blocks inside the task while the router thread
//! answers.
//!
//! Peers are (a) `Raw`: scripted clients over `tokio::io::duplex` that write bytes produced
//! by the reference encoder `gen::canon::encode` (or arbitrary bytes) and decode what the
//! broker writes with the *client* crate's codecs (`sub::codecs::{C4, C5}`), so the decoder
//! is independent of the broker's encoder; (b) real `rumqttc` event loops connected through
//! `rumqttc::verif::register` (see `Broker::register_addr`).
//!
//! Time is real. Nothing here turns elapsed time into a verdict: every wait is a wait for a
//! logical event (a packet, end of stream, a task's `JoinHandle`, the router's answer to
//! `Event::VerifSnapshot`) under a generous watchdog whose expiry is reported as
//! `S6Err::Watchdog` (→ inconclusive).
//!
//! Logical barriers offered:
//! * `Raw::join()` – the connection task has returned: its `Disconnect` / `PublishWill`
//!   events (if any) are in the router channel;
//! * `Broker::barrier()` – the router has handled every event sent before the call (the
//!   channel is FIFO) and returns a snapshot taken on the router thread;
//! * sentinel publishes (`Raw::publish` + `Raw::until_payload`) – per-log FIFO: everything
//!   appended to a filter's log before the sentinel has been forwarded before it;
//! * `Raw::ping()` – PINGREQ/PINGRESP round trip on one connection.
use crate::common::PanicInfo;
use crate::gen::canon::{self, Canon, CanonConnect, CanonWill, PVal, Props};
use crate::sub::codecs::{decode_step, CodecUnderTest, Step, C4, C5};
pub use crate::sub::s3::wire::Ver;
use bytes::BytesMut;
use flume::Sender;
use rumqttd::protocol::v4::V4;
use rumqttd::protocol::v5::V5;
use rumqttd::verif::{Event, IdleMarker, RouterSnapshot, N};
use rumqttd::{ConnectionSettings, Router, RouterConfig, Server, ServerSettings};
use serde::Serialize;
use std::collections::HashMap;
use std::future::Future;
use std::pin::Pin;
use std::sync::atomic::{AtomicUsize, Ordering};
use std::sync::{Arc, Mutex, Once};
use std::time::Duration;
use tokio::io::{AsyncReadExt, AsyncWriteExt, DuplexStream};
use tokio::task::JoinHandle;

/// generous wall-clock bound on any single wait; expiry is never a verdict
pub const WATCHDOG: Duration = Duration::from_secs(30);
/// in-memory pipe capacity per direction
pub const PIPE: usize = 256 * 1024;
/// largest frame the scripted clients accept
pub const MAX_FRAME: usize = 8 * 1024 * 1024;

// ---------------------------------------------------------------- errors

#[derive(Clone, Debug)]
pub enum S6Err {
    /// a wait exceeded `WATCHDOG` (→ inconclusive)
    Watchdog(String),
    /// the router thread is gone (panic or loop error)
    RouterGone(Option<PanicInfo>),
    /// harness-side failure
    Harness(String),
}

impl std::fmt::Display for S6Err {
    fn fmt(&self, f: &mut std::fmt::Formatter<'_>) -> std::fmt::Result {
        match self {
            S6Err::Watchdog(s) => write!(f, "watchdog: {s}"),
            S6Err::RouterGone(p) => write!(f, "router thread gone: {p:?}"),
            S6Err::Harness(s) => write!(f, "harness: {s}"),
        }
    }
}

// ---------------------------------------------------------------- panic log

/// A panic on a broker thread of this substrate (tokio worker `s6w-*` or `router-<id>`)
#[derive(Clone, Debug)]
pub struct PanicRec {
    pub thread: String,
    pub location: String,
    pub message: String,
}

static PANICS: Mutex<Vec<PanicRec>> = Mutex::new(Vec::new());
static HOOK: Once = Once::new();
/// router ids (= router thread names) handed out by this substrate
static NEXT_ROUTER: AtomicUsize = AtomicUsize::new(6000);

fn ours(thread: &str) -> bool {
    if thread.starts_with("s6w-") {
        return true;
    }
    thread
        .strip_prefix("router-")
        .and_then(|n| n.parse::<usize>().ok())
        .is_some_and(|n| n >= 6000)
}

/// Chain a hook in front of the harness' panic hook: panics on this substrate's broker
/// threads are recorded (location and message) instead of printed; everything else goes to
/// the previous hook unchanged.
pub fn install_hook() {
    crate::common::install_panic_hook();
    HOOK.call_once(|| {
        let prev = std::panic::take_hook();
        std::panic::set_hook(Box::new(move |info| {
            let thread = std::thread::current().name().unwrap_or("").to_owned();
            if !ours(&thread) {
                prev(info);
                return;
            }
            let location = info
                .location()
                .map(|l| {
                    let f = l.file();
                    let f = f.rsplit("/repo/").next().unwrap_or(f);
                    format!("{}:{}", f, l.line())
                })
                .unwrap_or_else(|| "?".to_owned());
            let message = if let Some(s) = info.payload().downcast_ref::<&str>() {
                (*s).to_owned()
            } else if let Some(s) = info.payload().downcast_ref::<String>() {
                s.clone()
            } else {
                "?".to_owned()
            };
            if let Ok(mut p) = PANICS.lock() {
                if p.len() > 10_000 {
                    p.drain(..5_000);
                }
                p.push(PanicRec {
                    thread,
                    location,
                    message,
                });
            }
        }));
    });
}

/// latest recorded panic on a thread whose name starts with `prefix` (and, if given, with this message)
pub fn find_panic(prefix: &str, message: Option<&str>) -> Option<PanicRec> {
    let p = PANICS.lock().ok()?;
    p.iter()
        .rev()
        .find(|r| r.thread.starts_with(prefix) && message.is_none_or(|m| r.message == m))
        .cloned()
}

// ---------------------------------------------------------------- runtime

/// The tokio runtime the connection tasks run on (one per harness shard)
pub struct Rt {
    pub rt: tokio::runtime::Runtime,
    pub name: String,
}

impl Rt {
    pub fn new(tag: &str, workers: usize) -> Rt {
        install_hook();
        let name = format!("s6w-{tag}");
        let rt = tokio::runtime::Builder::new_multi_thread()
            .worker_threads(workers.max(2))
            .thread_name(name.clone())
            .enable_all()
            .build()
            .expect("tokio runtime");
        Rt { rt, name }
    }
    /// drive a scenario on the calling thread; connection tasks run on the workers
    pub fn block_on<F: Future>(&self, f: F) -> F::Output {
        self.rt.block_on(f)
    }
}

// ---------------------------------------------------------------- configuration

/// Authentication configuration of one listener
#[derive(Clone, Debug, PartialEq, Eq, Serialize)]
pub enum Auth {
    None,
    /// static user → password map
    Static(Vec<(String, String)>),
    /// external callback accepting exactly these (user, password) pairs
    External(Vec<(String, String)>),
    Both {
        stat: Vec<(String, String)>,
        ext: Vec<(String, String)>,
    },
}

#[derive(Clone, Debug, Serialize)]
pub struct ListenerCfg {
    pub ver: Ver,
    pub auth: Auth,
    pub connection_timeout_ms: u16,
    pub max_payload_size: usize,
    pub max_inflight_count: usize,
}

impl ListenerCfg {
    pub fn plain(ver: Ver) -> ListenerCfg {
        ListenerCfg {
            ver,
            auth: Auth::None,
            connection_timeout_ms: 20_000,
            max_payload_size: 1024 * 1024,
            max_inflight_count: 100,
        }
    }
    pub fn with_auth(ver: Ver, auth: Auth) -> ListenerCfg {
        ListenerCfg {
            auth,
            ..ListenerCfg::plain(ver)
        }
    }
}

pub fn router_config(max_connections: usize) -> RouterConfig {
    RouterConfig {
        max_connections,
        max_outgoing_packet_count: 200,
        max_segment_size: 1024 * 1024,
        max_segment_count: 10,
        custom_segment: None,
        initialized_filters: None,
        shared_subscriptions_strategy: Default::default(),
    }
}

fn connection_settings(cfg: &ListenerCfg) -> ConnectionSettings {
    let (stat, ext) = match &cfg.auth {
        Auth::None => (None, None),
        Auth::Static(m) => (Some(m.clone()), None),
        Auth::External(e) => (None, Some(e.clone())),
        Auth::Both { stat, ext } => (Some(stat.clone()), Some(ext.clone())),
    };
    let mut s = ConnectionSettings {
        connection_timeout_ms: cfg.connection_timeout_ms,
        max_payload_size: cfg.max_payload_size,
        max_inflight_count: cfg.max_inflight_count,
        auth: stat.map(|m| m.into_iter().collect::<HashMap<_, _>>()),
        external_auth: None,
        dynamic_filters: false,
    };
    if let Some(ext) = ext {
        let ext = Arc::new(ext);
        s.set_auth_handler(move |_client_id: String, user: String, pass: String| {
            let ext = ext.clone();
            async move { ext.iter().any(|(u, p)| *u == user && *p == pass) }
        });
    }
    s
}

enum Srv {
    V4(Server<V4>),
    V5(Server<V5>),
}

impl Srv {
    fn accept(&self, stream: Box<dyn N>) -> Pin<Box<dyn Future<Output = ()> + Send>> {
        match self {
            Srv::V4(s) => Box::pin(s.verif_accept(stream)),
            Srv::V5(s) => Box::pin(s.verif_accept(stream)),
        }
    }
}

// ---------------------------------------------------------------- broker

/// One router thread plus any number of listeners
pub struct Broker {
    pub router_id: usize,
    pub router_tx: Sender<(usize, Event)>,
    pub idle: Arc<IdleMarker>,
    pub listeners: Vec<ListenerCfg>,
    srvs: Vec<Arc<Srv>>,
    handle: tokio::runtime::Handle,
    /// addresses registered with `rumqttc::verif::register`
    registered: Mutex<Vec<String>>,
    /// connections accepted so far
    pub accepted: AtomicUsize,
}

impl Broker {
    pub fn start(rt: &Rt, config: RouterConfig, listeners: Vec<ListenerCfg>) -> Broker {
        install_hook();
        let router_id = NEXT_ROUTER.fetch_add(1, Ordering::SeqCst);
        let router = Router::new(router_id, config);
        let idle = router.verif_idle();
        let router_tx = router.spawn();
        let srvs = listeners
            .iter()
            .enumerate()
            .map(|(i, l)| {
                let settings = ServerSettings {
                    name: format!("l{i}"),
                    listen: "127.0.0.1:0".parse().unwrap(),
                    tls: None,
                    next_connection_delay_ms: 0,
                    connections: connection_settings(l),
                };
                Arc::new(match l.ver {
                    Ver::V4 => Srv::V4(Server::new(settings, router_tx.clone(), V4)),
                    Ver::V5 => Srv::V5(Server::new(settings, router_tx.clone(), V5)),
                })
            })
            .collect();
        Broker {
            router_id,
            router_tx,
            idle,
            listeners,
            srvs,
            handle: rt.rt.handle().clone(),
            registered: Mutex::new(vec![]),
            accepted: AtomicUsize::new(0),
        }
    }

    /// index of the first listener with this protocol version
    pub fn listener(&self, ver: Ver) -> usize {
        self.listeners.iter().position(|l| l.ver == ver).expect("listener of that version")
    }

    /// Open a network connection to listener `l`: a duplex pipe whose far end is handed to the
    /// real per-connection task, spawned on the runtime.
    pub fn open(&self, l: usize) -> Raw {
        let (client_end, server_end) = tokio::io::duplex(PIPE);
        let fut = self.srvs[l].accept(Box::new(server_end));
        let task = self.handle.spawn(fut);
        self.accepted.fetch_add(1, Ordering::SeqCst);
        Raw::new(self.listeners[l].ver, client_end, task)
    }

    /// Make the rumqttc event loops that connect to `addr` reach listener `l` of this broker.
    /// Returns the join handles of the connection tasks created so far through this address.
    pub fn register_addr(&self, addr: &str, l: usize) -> Arc<Mutex<Vec<JoinHandle<()>>>> {
        let srv = self.srvs[l].clone();
        let handle = self.handle.clone();
        let tasks: Arc<Mutex<Vec<JoinHandle<()>>>> = Arc::new(Mutex::new(vec![]));
        let tasks2 = tasks.clone();
        let connector: rumqttc::verif::Connector = Arc::new(move || {
            let srv = srv.clone();
            let handle = handle.clone();
            let tasks = tasks2.clone();
            Box::pin(async move {
                let (client_end, server_end) = tokio::io::duplex(PIPE);
                let t = handle.spawn(srv.accept(Box::new(server_end)));
                tasks.lock().unwrap().push(t);
                let s: rumqttc::verif::Stream = Box::new(client_end);
                Ok(s)
            })
        });
        rumqttc::verif::register(addr, connector);
        self.registered.lock().unwrap().push(addr.to_owned());
        tasks
    }

    pub fn router_panic(&self) -> Option<PanicInfo> {
        find_panic(&format!("router-{}", self.router_id), None).map(|r| PanicInfo {
            location: r.location,
            message: r.message,
        })
    }

    /// Router barrier: returns after the router has handled every event that was in its
    /// channel when this was called; the snapshot is taken on the router thread.
    pub async fn barrier(&self) -> Result<RouterSnapshot, S6Err> {
        let (tx, rx) = flume::bounded(1);
        let send = self.router_tx.send_async((0, Event::VerifSnapshot(tx)));
        match tokio::time::timeout(WATCHDOG, send).await {
            Ok(Ok(())) => {}
            Ok(Err(_)) => return Err(S6Err::RouterGone(self.router_panic())),
            Err(_) => {
                if let Some(p) = self.router_panic() {
                    return Err(S6Err::RouterGone(Some(p)));
                }
                return Err(S6Err::Watchdog("router channel full".into()));
            }
        }
        let mut waited = Duration::ZERO;
        loop {
            let step = Duration::from_millis(200);
            match tokio::time::timeout(step, rx.recv_async()).await {
                Ok(Ok(s)) => return Ok(s),
                Ok(Err(_)) => return Err(S6Err::RouterGone(self.router_panic())),
                Err(_) => {
                    if let Some(p) = self.router_panic() {
                        return Err(S6Err::RouterGone(Some(p)));
                    }
                    waited += step;
                    if waited >= WATCHDOG {
                        return Err(S6Err::Watchdog("router did not answer VerifSnapshot".into()));
                    }
                }
            }
        }
    }

    /// Barrier repeated until the router reports itself blocked with an empty channel
    /// (logical quiescence of the router; connection tasks may still hold unsent bytes)
    pub async fn quiesce(&self) -> Result<RouterSnapshot, S6Err> {
        let mut last = self.barrier().await?;
        for _ in 0..10_000 {
            if self.router_tx.is_empty() && self.idle.blocked.load(Ordering::SeqCst) {
                return Ok(last);
            }
            tokio::task::yield_now().await;
            last = self.barrier().await?;
        }
        Err(S6Err::Watchdog("router never idle".into()))
    }
}

impl Drop for Broker {
    fn drop(&mut self) {
        for a in self.registered.lock().unwrap().drain(..) {
            rumqttc::verif::unregister(&a);
        }
        // the router thread keeps a sender to itself and therefore never ends: it stays
        // parked in recv() for the rest of the process (bounded by the number of brokers made)
    }
}

// ---------------------------------------------------------------- scripted client

/// How a broker connection task ended
#[derive(Clone, Debug, PartialEq, Eq, Serialize)]
pub enum TaskEnd {
    Returned,
    Panicked { location: String, message: String },
}

/// What the scripted client got when it asked for the next packet
#[derive(Clone, Debug, PartialEq)]
pub enum Got {
    Packet(Canon),
    /// end of stream: the broker dropped its end of the pipe
    Closed,
    /// the client codec rejected (or panicked on) the bytes
    Bad(String),
}

/// A received PUBLISH with the topic resolved through the connection's alias table
#[derive(Clone, Debug, PartialEq, Eq, Serialize)]
pub struct RxPub {
    pub topic: Vec<u8>,
    pub payload: Vec<u8>,
    pub qos: u8,
    pub retain: bool,
    pub dup: bool,
    pub pkid: u16,
    pub props: Props,
    /// the packet carried an empty topic and an alias
    pub via_alias: bool,
    /// alias with no known mapping (topic stays empty)
    pub alias_unknown: bool,
}

/// CONNECT outcome as seen on the wire
#[derive(Clone, Debug, PartialEq, Serialize)]
pub enum ConnOutcome {
    Ack { code: u8, session_present: bool, props: Props },
    /// connection closed before any CONNACK
    Closed,
    /// something else arrived first / undecodable bytes
    Other(String),
}

impl ConnOutcome {
    pub fn accepted(&self) -> bool {
        matches!(self, ConnOutcome::Ack { code: 0, .. })
    }
    pub fn brief(&self) -> String {
        match self {
            ConnOutcome::Ack { code, session_present, .. } => format!("CONNACK(code={code}, sp={session_present})"),
            ConnOutcome::Closed => "closed without CONNACK".into(),
            ConnOutcome::Other(s) => format!("other({s})"),
        }
    }
}

pub struct Raw {
    pub ver: Ver,
    io: Option<DuplexStream>,
    rbuf: BytesMut,
    task: Option<JoinHandle<()>>,
    pub end: Option<TaskEnd>,
    /// acknowledge forwards like a well-behaved client (PUBACK / PUBREC, PUBCOMP on PUBREL)
    pub auto_ack: bool,
    /// every decoded packet, in arrival order
    pub seen: Vec<Canon>,
    /// every PUBLISH, topic resolved
    pub pubs: Vec<RxPub>,
    aliases: HashMap<u16, Vec<u8>>,
    pub closed: bool,
    pub bad: Option<String>,
    pub bytes_in: usize,
    pub bytes_out: usize,
    next_pkid: u16,
}

fn pval_u16(p: &Props, id: u8) -> Option<u16> {
    p.iter().find_map(|(i, v)| match (i, v) {
        (i, PVal::U16(x)) if *i == id => Some(*x),
        _ => None,
    })
}

impl Raw {
    fn new(ver: Ver, io: DuplexStream, task: JoinHandle<()>) -> Raw {
        Raw {
            ver,
            io: Some(io),
            rbuf: BytesMut::with_capacity(4096),
            task: Some(task),
            end: None,
            auto_ack: true,
            seen: vec![],
            pubs: vec![],
            aliases: HashMap::new(),
            closed: false,
            bad: None,
            bytes_in: 0,
            bytes_out: 0,
            next_pkid: 0,
        }
    }

    pub fn version(&self) -> u8 {
        match self.ver {
            Ver::V4 => 4,
            Ver::V5 => 5,
        }
    }

    pub fn pkid(&mut self) -> u16 {
        self.next_pkid = if self.next_pkid == u16::MAX { 1 } else { self.next_pkid + 1 };
        self.next_pkid
    }

    /// Write raw bytes. `false` = the pipe is closed (the broker dropped its end).
    pub async fn write(&mut self, bytes: &[u8]) -> Result<bool, S6Err> {
        let Some(io) = self.io.as_mut() else { return Ok(false) };
        match tokio::time::timeout(WATCHDOG, io.write_all(bytes)).await {
            Ok(Ok(())) => {
                self.bytes_out += bytes.len();
                Ok(true)
            }
            Ok(Err(_)) => Ok(false),
            Err(_) => Err(S6Err::Watchdog("write to broker blocked".into())),
        }
    }

    /// Encode with the reference encoder and write
    pub async fn send(&mut self, c: &Canon) -> Result<bool, S6Err> {
        let b = canon::encode(c);
        self.write(&b).await
    }

    fn decode(&mut self) -> Option<Got> {
        if self.rbuf.is_empty() {
            return None;
        }
        let step = match self.ver {
            Ver::V4 => match decode_step::<C4>(&mut self.rbuf, MAX_FRAME).0 {
                Step::Packet(p) => Step::Packet(C4::canon(&p)),
                Step::NeedMore(n) => Step::NeedMore(n),
                Step::Error(e) => Step::Error(e),
                Step::Panic { location, message } => Step::Panic { location, message },
            },
            Ver::V5 => match decode_step::<C5>(&mut self.rbuf, MAX_FRAME).0 {
                Step::Packet(p) => Step::Packet(C5::canon(&p)),
                Step::NeedMore(n) => Step::NeedMore(n),
                Step::Error(e) => Step::Error(e),
                Step::Panic { location, message } => Step::Panic { location, message },
            },
        };
        match step {
            Step::Packet(c) => Some(Got::Packet(c)),
            Step::NeedMore(_) => None,
            Step::Error(e) => Some(Got::Bad(format!("client codec rejected the broker's bytes: {e}"))),
            Step::Panic { location, message } => Some(Got::Bad(format!("client codec panicked at {location}: {message}"))),
        }
    }

    fn note(&mut self, c: &Canon) {
        self.seen.push(c.clone());
        if c.ptype == canon::PUBLISH {
            let alias = pval_u16(&c.props, canon::P_TOPIC_ALIAS);
            let mut topic = c.topic.clone();
            let mut via_alias = false;
            let mut alias_unknown = false;
            if let Some(a) = alias {
                if topic.is_empty() {
                    via_alias = true;
                    match self.aliases.get(&a) {
                        Some(t) => topic = t.clone(),
                        None => alias_unknown = true,
                    }
                } else {
                    self.aliases.insert(a, topic.clone());
                }
            }
            self.pubs.push(RxPub {
                topic,
                payload: c.payload.clone(),
                qos: c.qos,
                retain: c.retain,
                dup: c.dup,
                pkid: c.pkid,
                props: c.props.clone(),
                via_alias,
                alias_unknown,
            });
        }
    }

    async fn ack(&mut self, c: &Canon) -> Result<(), S6Err> {
        let v = self.version();
        let reply = match (c.ptype, c.qos) {
            (canon::PUBLISH, 1) => Some(canon::PUBACK),
            (canon::PUBLISH, 2) => Some(canon::PUBREC),
            (canon::PUBREL, _) => Some(canon::PUBCOMP),
            _ => None,
        };
        if let Some(t) = reply {
            let mut a = Canon::empty(v, t);
            a.pkid = c.pkid;
            self.send(&a).await?;
        }
        Ok(())
    }

    /// Next packet from the broker (decoded with the client crate's codec), end of stream,
    /// or undecodable bytes. After `Closed` / `Bad` the same value is returned again.
    pub async fn next(&mut self) -> Result<Got, S6Err> {
        loop {
            if let Some(b) = &self.bad {
                return Ok(Got::Bad(b.clone()));
            }
            if let Some(g) = self.decode() {
                match &g {
                    Got::Packet(c) => {
                        let c = c.clone();
                        self.note(&c);
                        if self.auto_ack {
                            self.ack(&c).await?;
                        }
                    }
                    Got::Bad(b) => self.bad = Some(b.clone()),
                    Got::Closed => {}
                }
                return Ok(g);
            }
            if self.closed {
                return Ok(Got::Closed);
            }
            let Some(io) = self.io.as_mut() else {
                self.closed = true;
                return Ok(Got::Closed);
            };
            match tokio::time::timeout(WATCHDOG, io.read_buf(&mut self.rbuf)).await {
                Ok(Ok(0)) | Ok(Err(_)) => {
                    self.closed = true;
                    if !self.rbuf.is_empty() {
                        // stream ended inside a frame
                        let n = self.rbuf.len();
                        self.rbuf.clear();
                        self.bad = Some(format!("stream ended inside a frame ({n} bytes left)"));
                    }
                }
                Ok(Ok(n)) => self.bytes_in += n,
                Err(_) => return Err(S6Err::Watchdog("no packet and no end of stream from the broker".into())),
            }
        }
    }

    /// Read until a packet satisfies `pred` (returned) or the stream ends / turns bad (`None`)
    pub async fn until(&mut self, pred: impl Fn(&Canon) -> bool) -> Result<Option<Canon>, S6Err> {
        loop {
            match self.next().await? {
                Got::Packet(c) if pred(&c) => return Ok(Some(c)),
                Got::Packet(_) => {}
                Got::Closed | Got::Bad(_) => return Ok(None),
            }
        }
    }

    /// Read until a PUBLISH with exactly this payload arrives
    pub async fn until_payload(&mut self, payload: &[u8]) -> Result<bool, S6Err> {
        Ok(self
            .until(|c| c.ptype == canon::PUBLISH && c.payload == payload)
            .await?
            .is_some())
    }

    /// Read until the broker closes the stream (everything before it is recorded)
    pub async fn until_closed(&mut self) -> Result<(), S6Err> {
        self.until(|_| false).await.map(|_| ())
    }

    /// Send CONNECT and wait for the answer
    pub async fn connect(&mut self, c: &Canon) -> Result<ConnOutcome, S6Err> {
        self.send(c).await?;
        self.connack().await
    }

    /// Wait for CONNACK / close
    pub async fn connack(&mut self) -> Result<ConnOutcome, S6Err> {
        Ok(match self.next().await? {
            Got::Packet(c) if c.ptype == canon::CONNACK => ConnOutcome::Ack {
                code: c.code,
                session_present: c.session_present,
                props: c.props,
            },
            Got::Packet(c) => ConnOutcome::Other(c.summary()),
            Got::Closed => ConnOutcome::Closed,
            Got::Bad(b) => ConnOutcome::Other(b),
        })
    }

    /// SUBSCRIBE one filter and wait for its SUBACK; returns the granted codes
    pub async fn subscribe(&mut self, filter: &str, qos: u8, sub_id: Option<u32>) -> Result<Option<Vec<u8>>, S6Err> {
        let mut s = Canon::empty(self.version(), canon::SUBSCRIBE);
        s.pkid = self.pkid();
        s.filters = vec![(filter.to_owned(), qos)];
        if let (Ver::V5, Some(id)) = (self.ver, sub_id) {
            s.props = vec![(canon::P_SUBSCRIPTION_ID, PVal::Var(id))];
        }
        let id = s.pkid;
        if !self.send(&s).await? {
            return Ok(None);
        }
        Ok(self
            .until(|c| c.ptype == canon::SUBACK && c.pkid == id)
            .await?
            .map(|c| c.codes))
    }

    /// PUBLISH and complete the acknowledgement flow of its QoS. `true` = flow completed.
    pub async fn publish(&mut self, topic: &[u8], payload: &[u8], qos: u8, retain: bool, props: Props) -> Result<bool, S6Err> {
        let mut p = Canon::empty(self.version(), canon::PUBLISH);
        p.topic = topic.to_vec();
        p.payload = payload.to_vec();
        p.qos = qos;
        p.retain = retain;
        if self.ver == Ver::V5 {
            p.props = props;
        }
        if qos > 0 {
            p.pkid = self.pkid();
        }
        let id = p.pkid;
        if !self.send(&p).await? {
            return Ok(false);
        }
        match qos {
            0 => Ok(true),
            1 => Ok(self.until(|c| c.ptype == canon::PUBACK && c.pkid == id).await?.is_some()),
            _ => {
                if self.until(|c| c.ptype == canon::PUBREC && c.pkid == id).await?.is_none() {
                    return Ok(false);
                }
                let mut r = Canon::empty(self.version(), canon::PUBREL);
                r.pkid = id;
                if !self.send(&r).await? {
                    return Ok(false);
                }
                Ok(self.until(|c| c.ptype == canon::PUBCOMP && c.pkid == id).await?.is_some())
            }
        }
    }

    /// PINGREQ / PINGRESP round trip; `false` = the connection ended instead
    pub async fn ping(&mut self) -> Result<bool, S6Err> {
        let p = Canon::empty(self.version(), canon::PINGREQ);
        if !self.send(&p).await? {
            return Ok(false);
        }
        Ok(self.until(|c| c.ptype == canon::PINGRESP).await?.is_some())
    }

    /// DISCONNECT packet (normal disconnection)
    pub async fn disconnect(&mut self) -> Result<bool, S6Err> {
        let d = Canon::empty(self.version(), canon::DISCONNECT);
        self.send(&d).await
    }

    /// End of input towards the broker (its reads see EOF after the bytes already written);
    /// the other direction stays open
    pub async fn half_close(&mut self) {
        if let Some(io) = self.io.as_mut() {
            let _ = tokio::time::timeout(WATCHDOG, io.shutdown()).await;
        }
    }

    /// Close the socket (both directions) without any packet
    pub fn close(&mut self) {
        self.io = None;
        self.closed = true;
    }

    pub fn is_open(&self) -> bool {
        self.io.is_some() && !self.closed
    }

    /// Wait until the broker's connection task has ended. After this its `Disconnect` /
    /// `PublishWill` events are in the router channel.
    pub async fn join(&mut self) -> Result<TaskEnd, S6Err> {
        if let Some(e) = &self.end {
            return Ok(e.clone());
        }
        let Some(task) = self.task.as_mut() else {
            return Err(S6Err::Harness("join: no task".into()));
        };
        let r = match tokio::time::timeout(WATCHDOG, task).await {
            Ok(r) => r,
            Err(_) => return Err(S6Err::Watchdog("broker connection task did not end".into())),
        };
        self.task = None;
        let end = match r {
            Ok(()) => TaskEnd::Returned,
            Err(e) if e.is_panic() => {
                let payload = e.into_panic();
                let message = if let Some(s) = payload.downcast_ref::<&str>() {
                    (*s).to_owned()
                } else if let Some(s) = payload.downcast_ref::<String>() {
                    s.clone()
                } else {
                    "?".to_owned()
                };
                let location = find_panic("s6w-", Some(&message)).map(|r| r.location).unwrap_or_else(|| "?".into());
                TaskEnd::Panicked { location, message }
            }
            Err(e) => return Err(S6Err::Harness(format!("connection task cancelled: {e}"))),
        };
        self.end = Some(end.clone());
        Ok(end)
    }

    /// `true` if the connection task has already ended (non-blocking)
    pub fn task_finished(&self) -> bool {
        self.end.is_some() || self.task.as_ref().is_none_or(|t| t.is_finished())
    }

    /// Payloads (lossy text) of all PUBLISHes received so far
    pub fn payloads(&self) -> Vec<String> {
        self.pubs.iter().map(|p| String::from_utf8_lossy(&p.payload).into_owned()).collect()
    }
}

// ---------------------------------------------------------------- packet builders

/// A plain CONNECT of the given version
pub fn connect(version: u8, client_id: &str, clean: bool, keep_alive: u16) -> Canon {
    let mut c = Canon::empty(version, canon::CONNECT);
    c.connect = Some(CanonConnect {
        keep_alive,
        clean,
        client_id: client_id.to_owned(),
        will: None,
        username: None,
        password: None,
    });
    c
}

pub fn with_will(mut c: Canon, topic: &str, message: &[u8], qos: u8, retain: bool, props: Props) -> Canon {
    if let Some(k) = c.connect.as_mut() {
        k.will = Some(CanonWill {
            topic: topic.as_bytes().to_vec(),
            message: message.to_vec(),
            qos,
            retain,
            props: if c.version == 5 { props } else { vec![] },
        });
    }
    c
}

pub fn with_login(mut c: Canon, user: Option<&str>, pass: Option<&str>) -> Canon {
    if let Some(k) = c.connect.as_mut() {
        k.username = user.map(|s| s.to_owned());
        k.password = pass.map(|s| s.to_owned());
    }
    c
}

pub fn ver_num(v: Ver) -> u8 {
    match v {
        Ver::V4 => 4,
        Ver::V5 => 5,
    }
}

/// Open a connection on the first listener of `ver`, CONNECT with a 60 s keep-alive and a
/// clean session, and insist on a success CONNACK (helper for witnesses / publishers)
pub async fn helper_client(b: &Broker, ver: Ver, client_id: &str) -> Result<Raw, S6Err> {
    let mut r = b.open(b.listener(ver));
    let out = r.connect(&connect(ver_num(ver), client_id, true, 60)).await?;
    if !out.accepted() {
        return Err(S6Err::Harness(format!("helper client {client_id} was not accepted: {}", out.brief())));
    }
    Ok(r)
}
