//! Substrate S1 for the codecs: one uniform adapter (`CodecUnderTest`) over the four real
//! encode/decode entry points, every call under `guarded`; the independent fixed-header
//! parser used as oracle by C05; an in-memory chunked reader; drivers that push a chunked
//! stream through the real `tokio_util::codec::Framed` + rumqttc `Codec`s and through the
//! real rumqttd `Network::read` / `readv`.
use crate::common::{guarded, PanicInfo};
use crate::gen::canon::Canon;
use crate::gen::{cpkt4, cpkt5, dpkts};
use bytes::BytesMut;
use futures_util::StreamExt;
use rumqttd::protocol::Protocol;
use std::collections::VecDeque;
use std::fmt::Debug;
use std::pin::Pin;
use std::task::{Context, Poll};
use tokio::io::{AsyncRead, AsyncWrite, ReadBuf};

// ------------------------------------------------------------------ adapter

#[derive(Clone, Debug, PartialEq, Eq)]
pub enum DecErr {
    /// the decoder asks for more bytes
    NeedMore(usize),
    /// any other decoder error (Display text)
    Other(String),
}

pub trait CodecUnderTest {
    type Packet: Clone + PartialEq + Debug;
    /// "c4" | "c5" | "d4" | "d5"
    const NAME: &'static str;
    const VERSION: u8;
    const CLIENT: bool;
    /// source file (relative to /repo) of the top-level read/write dispatch
    const SITE: &'static str;
    fn build(c: &Canon) -> Option<Self::Packet>;
    fn canon(p: &Self::Packet) -> Canon;
    /// encode with no size limit; Ok(length the encoder returned)
    fn encode(p: &Self::Packet, out: &mut BytesMut) -> Result<usize, String>;
    /// `size()` of the packet (client codecs only)
    fn size(p: &Self::Packet) -> Option<usize>;
    /// one call of the public decode entry point with maximum size `max`
    fn decode(buf: &mut BytesMut, max: usize) -> Result<Self::Packet, DecErr>;
    /// feed `chunks` through the real framing layer (Framed+Codec for the client codecs,
    /// `Network` for the broker codecs; `mode` 1 = also use `readv` after every `read`)
    fn transport(rt: &tokio::runtime::Runtime, chunks: Vec<Vec<u8>>, max: usize, mode: u8) -> Seq<Self::Packet>;
}

pub struct C4;
pub struct C5;
pub struct D4;
pub struct D5;

fn c5_max(max: usize) -> Option<u32> {
    if max > u32::MAX as usize {
        None
    } else {
        Some(max as u32)
    }
}

impl CodecUnderTest for C4 {
    type Packet = rumqttc::mqttbytes::v4::Packet;
    const NAME: &'static str = "c4";
    const VERSION: u8 = 4;
    const CLIENT: bool = true;
    const SITE: &'static str = "rumqttc/src/mqttbytes/v4/mod.rs";
    fn build(c: &Canon) -> Option<Self::Packet> {
        cpkt4::build(c)
    }
    fn canon(p: &Self::Packet) -> Canon {
        cpkt4::canon(p)
    }
    fn encode(p: &Self::Packet, out: &mut BytesMut) -> Result<usize, String> {
        p.write(out, usize::MAX).map_err(|e| e.to_string())
    }
    fn size(p: &Self::Packet) -> Option<usize> {
        Some(p.size())
    }
    fn decode(buf: &mut BytesMut, max: usize) -> Result<Self::Packet, DecErr> {
        use rumqttc::mqttbytes::Error;
        match rumqttc::mqttbytes::v4::Packet::read(buf, max) {
            Ok(p) => Ok(p),
            Err(Error::InsufficientBytes(n)) => Err(DecErr::NeedMore(n)),
            Err(e) => Err(DecErr::Other(e.to_string())),
        }
    }
    fn transport(rt: &tokio::runtime::Runtime, chunks: Vec<Vec<u8>>, max: usize, _mode: u8) -> Seq<Self::Packet> {
        use rumqttc::mqttbytes::Error;
        let codec = rumqttc::mqttbytes::v4::Codec {
            max_incoming_size: max,
            max_outgoing_size: usize::MAX,
        };
        let mut framed = tokio_util::codec::Framed::new(ChunkReader::new(chunks), codec);
        run_guarded(|| {
            rt.block_on(async {
                let mut seq = Seq::new();
                loop {
                    match framed.next().await {
                        Some(Ok(p)) => seq.packets.push(p),
                        Some(Err(Error::Io(_))) | None => break,
                        Some(Err(e)) => {
                            seq.end = End::Error(e.to_string());
                            break;
                        }
                    }
                    if seq.packets.len() > 100_000 {
                        seq.end = End::Runaway;
                        break;
                    }
                }
                seq
            })
        })
    }
}

impl CodecUnderTest for C5 {
    type Packet = rumqttc::v5::mqttbytes::v5::Packet;
    const NAME: &'static str = "c5";
    const VERSION: u8 = 5;
    const CLIENT: bool = true;
    const SITE: &'static str = "rumqttc/src/v5/mqttbytes/v5/mod.rs";
    fn build(c: &Canon) -> Option<Self::Packet> {
        cpkt5::build(c)
    }
    fn canon(p: &Self::Packet) -> Canon {
        cpkt5::canon(p)
    }
    fn encode(p: &Self::Packet, out: &mut BytesMut) -> Result<usize, String> {
        p.write(out, None).map_err(|e| e.to_string())
    }
    fn size(p: &Self::Packet) -> Option<usize> {
        Some(p.size())
    }
    fn decode(buf: &mut BytesMut, max: usize) -> Result<Self::Packet, DecErr> {
        use rumqttc::v5::mqttbytes::Error;
        match rumqttc::v5::mqttbytes::v5::Packet::read(buf, c5_max(max)) {
            Ok(p) => Ok(p),
            Err(Error::InsufficientBytes(n)) => Err(DecErr::NeedMore(n)),
            Err(e) => Err(DecErr::Other(e.to_string())),
        }
    }
    fn transport(rt: &tokio::runtime::Runtime, chunks: Vec<Vec<u8>>, max: usize, _mode: u8) -> Seq<Self::Packet> {
        use rumqttc::v5::mqttbytes::Error;
        let codec = rumqttc::v5::mqttbytes::v5::Codec {
            max_incoming_size: c5_max(max),
            max_outgoing_size: None,
        };
        let mut framed = tokio_util::codec::Framed::new(ChunkReader::new(chunks), codec);
        run_guarded(|| {
            rt.block_on(async {
                let mut seq = Seq::new();
                loop {
                    match framed.next().await {
                        Some(Ok(p)) => seq.packets.push(p),
                        Some(Err(Error::Io(_))) | None => break,
                        Some(Err(e)) => {
                            seq.end = End::Error(e.to_string());
                            break;
                        }
                    }
                    if seq.packets.len() > 100_000 {
                        seq.end = End::Runaway;
                        break;
                    }
                }
                seq
            })
        })
    }
}

fn broker_decode<P: Protocol>(mut p: P, buf: &mut BytesMut, max: usize) -> Result<rumqttd::protocol::Packet, DecErr> {
    use rumqttd::protocol::Error;
    match p.read_mut(buf, max) {
        Ok(p) => Ok(p),
        Err(Error::InsufficientBytes(n)) => Err(DecErr::NeedMore(n)),
        Err(e) => Err(DecErr::Other(e.to_string())),
    }
}

fn broker_transport<P: Protocol>(
    rt: &tokio::runtime::Runtime,
    protocol: P,
    chunks: Vec<Vec<u8>>,
    max: usize,
    mode: u8,
) -> Seq<rumqttd::protocol::Packet> {
    use rumqttd::verif::Network;
    // small connection buffer in mode 1 so readv also returns on the count limit
    let buffer_len = if mode == 1 { 3 } else { 1000 };
    let mut network = Network::new(Box::new(ChunkReader::new(chunks)), max, buffer_len, protocol);
    run_guarded(|| {
        rt.block_on(async {
            let mut seq = Seq::new();
            'outer: loop {
                match network.read().await {
                    Ok(p) => seq.packets.push(p),
                    Err(e) => {
                        seq.end = net_end(e);
                        break;
                    }
                }
                if mode == 1 {
                    let mut q = VecDeque::new();
                    let r = network.readv(&mut q);
                    seq.packets.extend(q);
                    if let Err(e) = r {
                        seq.end = net_end(e);
                        break 'outer;
                    }
                }
                if seq.packets.len() > 100_000 {
                    seq.end = End::Runaway;
                    break;
                }
            }
            seq
        })
    })
}

/// `Network` error -> end of sequence. The error enum of `link::network` is not
/// re-exported, so it is classified through its Display text: "Invalid data = <protocol
/// error>" (read) and "I/O = <protocol error>" with kind InvalidData (readv) are decoder
/// errors, the rest ("I/O = connection closed/reset by peer") is end of input.
fn net_end<E: std::fmt::Display>(e: E) -> End {
    let s = e.to_string();
    if let Some(m) = s.strip_prefix("Invalid data = ") {
        return End::Error(m.to_owned());
    }
    if let Some(m) = s.strip_prefix("I/O = ") {
        if m.starts_with("connection closed by peer") || m.starts_with("connection reset by peer") {
            return End::Eof;
        }
        return End::Error(m.to_owned());
    }
    End::Error(s)
}

impl CodecUnderTest for D4 {
    type Packet = rumqttd::protocol::Packet;
    const NAME: &'static str = "d4";
    const VERSION: u8 = 4;
    const CLIENT: bool = false;
    const SITE: &'static str = "rumqttd/src/protocol/v4/mod.rs";
    fn build(c: &Canon) -> Option<Self::Packet> {
        if c.version == 4 {
            dpkts::build(c)
        } else {
            None
        }
    }
    fn canon(p: &Self::Packet) -> Canon {
        dpkts::canon(p, 4)
    }
    fn encode(p: &Self::Packet, out: &mut BytesMut) -> Result<usize, String> {
        rumqttd::protocol::v4::V4.write(p.clone(), out).map_err(|e| e.to_string())
    }
    fn size(_p: &Self::Packet) -> Option<usize> {
        None
    }
    fn decode(buf: &mut BytesMut, max: usize) -> Result<Self::Packet, DecErr> {
        broker_decode(rumqttd::protocol::v4::V4, buf, max)
    }
    fn transport(rt: &tokio::runtime::Runtime, chunks: Vec<Vec<u8>>, max: usize, mode: u8) -> Seq<Self::Packet> {
        broker_transport(rt, rumqttd::protocol::v4::V4, chunks, max, mode)
    }
}

impl CodecUnderTest for D5 {
    type Packet = rumqttd::protocol::Packet;
    const NAME: &'static str = "d5";
    const VERSION: u8 = 5;
    const CLIENT: bool = false;
    const SITE: &'static str = "rumqttd/src/protocol/v5/mod.rs";
    fn build(c: &Canon) -> Option<Self::Packet> {
        if c.version == 5 {
            dpkts::build(c)
        } else {
            None
        }
    }
    fn canon(p: &Self::Packet) -> Canon {
        dpkts::canon(p, 5)
    }
    fn encode(p: &Self::Packet, out: &mut BytesMut) -> Result<usize, String> {
        rumqttd::protocol::v5::V5.write(p.clone(), out).map_err(|e| e.to_string())
    }
    fn size(_p: &Self::Packet) -> Option<usize> {
        None
    }
    fn decode(buf: &mut BytesMut, max: usize) -> Result<Self::Packet, DecErr> {
        broker_decode(rumqttd::protocol::v5::V5, buf, max)
    }
    fn transport(rt: &tokio::runtime::Runtime, chunks: Vec<Vec<u8>>, max: usize, mode: u8) -> Seq<Self::Packet> {
        broker_transport(rt, rumqttd::protocol::v5::V5, chunks, max, mode)
    }
}

// ------------------------------------------------------------------ guarded single steps

/// outcome of one guarded decode call
#[derive(Clone, Debug, PartialEq)]
pub enum Step<P> {
    Packet(P),
    NeedMore(usize),
    Error(String),
    Panic { location: String, message: String },
}

impl<P> Step<P> {
    pub fn class(&self) -> &'static str {
        match self {
            Step::Packet(_) => "packet",
            Step::NeedMore(_) => "need-more",
            Step::Error(_) => "error",
            Step::Panic { .. } => "panic",
        }
    }
}

/// one decode call under the panic monitor; returns the step and the bytes consumed
pub fn decode_step<C: CodecUnderTest>(buf: &mut BytesMut, max: usize) -> (Step<C::Packet>, usize) {
    let before = buf.len();
    let r = guarded(|| C::decode(buf, max));
    let consumed = before.saturating_sub(buf.len());
    let step = match r {
        Ok(Ok(p)) => Step::Packet(p),
        Ok(Err(DecErr::NeedMore(n))) => Step::NeedMore(n),
        Ok(Err(DecErr::Other(e))) => Step::Error(e),
        Err(PanicInfo { location, message }) => Step::Panic { location, message },
    };
    (step, consumed)
}

/// one encode call under the panic monitor
pub fn encode_step<C: CodecUnderTest>(p: &C::Packet, out: &mut BytesMut) -> Result<Result<usize, String>, PanicInfo> {
    guarded(|| C::encode(p, out))
}

// ------------------------------------------------------------------ sequences

#[derive(Clone, Debug, PartialEq, Eq)]
pub enum End {
    /// input exhausted (possibly inside a frame)
    Eof,
    /// first decoder error
    Error(String),
    Panic(String),
    /// harness bound on the number of packets exceeded
    Runaway,
}

#[derive(Clone, Debug, PartialEq)]
pub struct Seq<P> {
    pub packets: Vec<P>,
    pub end: End,
}

impl<P> Seq<P> {
    pub fn new() -> Seq<P> {
        Seq {
            packets: vec![],
            end: End::Eof,
        }
    }
}

impl<P> Default for Seq<P> {
    fn default() -> Self {
        Seq::new()
    }
}

fn run_guarded<P>(f: impl FnOnce() -> Seq<P>) -> Seq<P> {
    match guarded(f) {
        Ok(s) => s,
        Err(p) => Seq {
            packets: vec![],
            end: End::Panic(format!("{} {}", p.location, p.message)),
        },
    }
}

pub fn runtime() -> tokio::runtime::Runtime {
    tokio::runtime::Builder::new_current_thread()
        .enable_time()
        .build()
        .expect("tokio current-thread runtime")
}

// ------------------------------------------------------------------ independent header parser

/// What the first bytes of a stream declare, by MQTT section 2 (fixed header): one byte of
/// type/flags, then the remaining length as a variable byte integer of 1 to 4 bytes.
#[derive(Clone, Copy, Debug, PartialEq, Eq)]
pub enum Hdr {
    /// not enough bytes to know the frame length yet
    Incomplete,
    /// four length bytes with the continuation bit set: no legal frame starts like this
    BadLength,
    /// a frame of `header_len + remaining` bytes is declared
    Frame { header_len: usize, remaining: usize },
}

pub fn parse_header(b: &[u8]) -> Hdr {
    if b.len() < 2 {
        return Hdr::Incomplete;
    }
    let mut remaining = 0usize;
    for i in 0..4 {
        let Some(byte) = b.get(1 + i) else { return Hdr::Incomplete };
        remaining |= ((byte & 0x7f) as usize) << (7 * i);
        if byte & 0x80 == 0 {
            return Hdr::Frame {
                header_len: 2 + i,
                remaining,
            };
        }
    }
    Hdr::BadLength
}

// ------------------------------------------------------------------ chunked in-memory transport

/// Hands out the given chunks, at most one per `poll_read`; then end of file. Writes vanish.
pub struct ChunkReader {
    chunks: VecDeque<Vec<u8>>,
    offset: usize,
}

impl ChunkReader {
    pub fn new(chunks: Vec<Vec<u8>>) -> ChunkReader {
        ChunkReader {
            chunks: chunks.into_iter().filter(|c| !c.is_empty()).collect(),
            offset: 0,
        }
    }
}

impl AsyncRead for ChunkReader {
    fn poll_read(mut self: Pin<&mut Self>, _cx: &mut Context<'_>, buf: &mut ReadBuf<'_>) -> Poll<std::io::Result<()>> {
        let me = &mut *self;
        let Some(front) = me.chunks.front() else { return Poll::Ready(Ok(())) };
        let rest = &front[me.offset..];
        let n = rest.len().min(buf.remaining());
        buf.put_slice(&rest[..n]);
        me.offset += n;
        if me.offset == front.len() {
            me.chunks.pop_front();
            me.offset = 0;
        }
        Poll::Ready(Ok(()))
    }
}

impl AsyncWrite for ChunkReader {
    fn poll_write(self: Pin<&mut Self>, _cx: &mut Context<'_>, buf: &[u8]) -> Poll<std::io::Result<usize>> {
        Poll::Ready(Ok(buf.len()))
    }
    fn poll_flush(self: Pin<&mut Self>, _cx: &mut Context<'_>) -> Poll<std::io::Result<()>> {
        Poll::Ready(Ok(()))
    }
    fn poll_shutdown(self: Pin<&mut Self>, _cx: &mut Context<'_>) -> Poll<std::io::Result<()>> {
        Poll::Ready(Ok(()))
    }
}

/// split `stream` into chunks: 0 = whole, 1 = byte by byte, otherwise random sizes 1..=k
pub fn split(stream: &[u8], how: u8, rng: &mut crate::common::Rng) -> Vec<Vec<u8>> {
    match how {
        0 => vec![stream.to_vec()],
        1 => stream.iter().map(|b| vec![*b]).collect(),
        _ => {
            let k = *rng.pick(&[2u64, 3, 5, 8, 64, 1024, 9000]);
            let mut out = vec![];
            let mut i = 0;
            while i < stream.len() {
                let n = (rng.range(1, k) as usize).min(stream.len() - i);
                out.push(stream[i..i + n].to_vec());
                i += n;
            }
            out
        }
    }
}
