//! Seeded hostile workload driver for substrate S4: simulated clients ("actors") holding real
//! links, a stepping policy for the real router, and the lock-step M-broker oracle.
//! Every history is generated online from one `Rng`; replay = same seed + same profile.
use crate::common::{fnv, panic_site, Record, Rng, Stats};
use crate::gen::dpkt::{mk_publish, parts};
use crate::model::mbroker::{ConnState, Model, Will};
use crate::sub::s4::{router_config, ConnectOutcome, ShadowEv, Step, StepOut, S4};
use bytes::Bytes;
use rumqttd::protocol::{
    ConnAck, ConnectReturnCode, Disconnect, DisconnectReasonCode, Filter, LastWill, Packet, PingReq, PingResp, PubAck,
    PubAckReason, PubComp, PubCompReason, PubRec, PubRecReason, PubRel, PubRelReason, PublishProperties, QoS,
    RetainForwardRule, SubAck, Subscribe, SubscribeProperties, UnsubAck, Unsubscribe,
};
use rumqttd::verif::{Ack, Event, Print, ShadowRequest};
use rumqttd::{Notification, Strategy};
use serde_json::{json, Value};
use std::collections::{BTreeMap, BTreeSet, VecDeque};

#[derive(Clone, Copy, Debug, PartialEq, Eq)]
pub enum Stepping {
    /// production turns only
    Turns,
    /// single event / consume steps with link actions in between
    Single,
    Mixed,
}

/// Known-finding triggers the generator may use (DESIGN.md 1.2 "workload split")
#[derive(Clone, Debug, Default)]
pub struct Triggers {
    pub unsub_not_held: bool,
    pub unsub_multi: bool,
    pub unsub_after_resume: bool,
    pub stale_ready: bool,
    pub stale_disconnect: bool,
    pub persistent_shared: bool,
    pub group_two_filters: bool,
    pub plain_empty_on_retained: bool,
    pub resub_other_qos: bool,
    pub multibyte_topic: bool,
    pub alias_wildcard: bool,
    pub pubrel_unknown: bool,
    pub shadow_unknown_id: bool,
    pub dup_qos2: bool,
    /// UNSUBSCRIBE behind a PUBLISH in one batch
    pub unsub_behind_publish: bool,
}

impl Triggers {
    pub fn all() -> Triggers {
        Triggers {
            unsub_not_held: true,
            unsub_multi: true,
            unsub_after_resume: true,
            stale_ready: true,
            stale_disconnect: true,
            persistent_shared: true,
            group_two_filters: true,
            plain_empty_on_retained: true,
            resub_other_qos: true,
            multibyte_topic: true,
            alias_wildcard: true,
            pubrel_unknown: true,
            shadow_unknown_id: true,
            dup_qos2: true,
            unsub_behind_publish: true,
        }
    }
    pub fn pick_some(rng: &mut Rng) -> Triggers {
        let mut t = Triggers::default();
        // one or two triggers per triggered history so each finding is re-confirmed separately
        for _ in 0..rng.range(1, 2) {
            match rng.below(15) {
                0 => t.unsub_not_held = true,
                1 => t.unsub_multi = true,
                2 => t.unsub_after_resume = true,
                3 => t.stale_ready = true,
                4 => t.stale_disconnect = true,
                5 => t.persistent_shared = true,
                6 => t.group_two_filters = true,
                7 => t.plain_empty_on_retained = true,
                8 => t.resub_other_qos = true,
                9 => t.multibyte_topic = true,
                10 => t.alias_wildcard = true,
                11 => t.pubrel_unknown = true,
                12 => t.shadow_unknown_id = true,
                13 => t.unsub_behind_publish = true,
                _ => t.dup_qos2 = true,
            }
        }
        t
    }
}

#[derive(Clone, Debug)]
pub struct Profile {
    pub name: &'static str,
    pub clients: (u64, u64),
    pub ops: (u64, u64),
    pub topics: Vec<&'static str>,
    pub filters: Vec<&'static str>,
    pub stepping: Stepping,
    /// per-mille of clients that use persistent sessions
    pub persistent_pm: u64,
    pub qos_weights: [u32; 3],
    pub retain_pm: u64,
    pub shared_pm: u64,
    pub will_pm: u64,
    pub alias_pm: u64,
    pub sub_id_pm: u64,
    /// weights of the action kinds, see `Action`
    pub w: Weights,
    /// hostile packets / events allowed
    pub hostile: bool,
    pub raw_events: bool,
    pub stale_events: bool,
    /// keep an always-present well-behaved publisher/subscriber pair (C14)
    pub guarded_pair: bool,
    /// per-mille chance that a plain subscription comes with a shared twin on the same filter
    pub twin_pm: u64,
    pub max_connections: usize,
    pub max_outgoing: Vec<u64>,
    pub strategies: Vec<Strategy>,
    /// big backlogs (window / back-pressure corner states)
    pub burst: (u64, u64),
    pub burst_pm: u64,
    pub trigger_pm: u64,
    /// per-mille of clients whose client id contains a topic metacharacter (must be refused)
    pub bad_id_pm: u64,
    /// per-mille of publishes that carry MQTT 5 properties
    pub props_pm: u64,
    /// per-mille of publishes sent through a publisher-side topic alias
    pub pub_alias_pm: u64,
    /// (max_segment_size, max_segment_count) choices; anything but the first makes the model tolerate gaps
    pub segments: Vec<(usize, usize)>,
}

#[derive(Clone, Debug)]
pub struct Weights {
    pub publish: u32,
    pub subscribe: u32,
    pub unsubscribe: u32,
    pub ping: u32,
    pub connect: u32,
    pub disconnect_pkt: u32,
    pub link_drop: u32,
    pub takeover: u32,
    pub drain: u32,
    pub ack: u32,
    pub step: u32,
    pub notify: u32,
    pub bad: u32,
    pub raw: u32,
    pub stale: u32,
    pub will_ev: u32,
    pub stall: u32,
}

impl Default for Weights {
    fn default() -> Self {
        Weights {
            publish: 30,
            subscribe: 8,
            unsubscribe: 3,
            ping: 2,
            connect: 4,
            disconnect_pkt: 2,
            link_drop: 2,
            takeover: 1,
            drain: 12,
            ack: 12,
            step: 20,
            notify: 8,
            bad: 0,
            raw: 0,
            stale: 0,
            will_ev: 0,
            stall: 2,
        }
    }
}

pub fn base_profile(name: &'static str) -> Profile {
    Profile {
        name,
        clients: (2, 5),
        ops: (30, 150),
        topics: vec!["a", "a/b", "a/c", "b", "a/b/c"],
        filters: vec!["a", "a/b", "a/+", "a/#", "#", "+/b", "b", "+"],
        stepping: Stepping::Mixed,
        persistent_pm: 300,
        qos_weights: [3, 3, 2],
        retain_pm: 100,
        shared_pm: 0,
        will_pm: 0,
        alias_pm: 0,
        sub_id_pm: 700,
        w: Weights::default(),
        hostile: false,
        raw_events: false,
        stale_events: false,
        guarded_pair: false,
        twin_pm: 0,
        max_connections: 10,
        max_outgoing: vec![1, 2, 10, 200],
        strategies: vec![Strategy::RoundRobin],
        burst: (100, 260),
        burst_pm: 100,
        trigger_pm: 150,
        bad_id_pm: 0,
        props_pm: 120,
        pub_alias_pm: 80,
        segments: vec![(1024 * 1024, 10)],
    }
}

#[derive(Clone, Debug, Default)]
struct Actor {
    name: String,
    persistent: bool,
    link: Option<usize>,
    /// links this actor owned earlier (for stale events)
    old_links: Vec<usize>,
    next_pkid: u16,
    /// acknowledgements this client owes the broker, in order
    acks: VecDeque<Packet>,
    owes_ready: bool,
    /// turns for which this client neither collects nor acknowledges
    stall: u32,
    held: BTreeMap<String, u8>,
    sub_ids: usize,
    poisoned: bool,
    pushed_unnotified: bool,
    resumed: bool,
    alias_max: u16,
    uses_sub_ids: bool,
    has_will: bool,
    guarded: bool,
    qos2_unreleased: VecDeque<u16>,
    publishes: u64,
    /// topic aliases this client has established on its current connection
    out_aliases: BTreeMap<String, u16>,
}

pub struct History {
    /// name of the directed scenario this history runs (None: seeded random walk / enumerated symbols)
    pub directed: Option<String>,
    pub seed: u64,
    pub profile: Profile,
    pub s4: S4,
    pub model: Model,
    actors: Vec<Actor>,
    rng: Rng,
    pub oplog: Vec<String>,
    pub records: Vec<Record>,
    pub triggers: Triggers,
    pub triggered: bool,
    msg_counter: u64,
    pub corner: BTreeMap<&'static str, u64>,
    pub sigs: BTreeSet<String>,
    pub trans: BTreeSet<(String, String)>,
    last_sig: BTreeMap<usize, String>,
    pub shape: Vec<u8>,
    pub inconclusive: Option<String>,
    pub ops_count: BTreeMap<&'static str, u64>,
    link_actor: BTreeMap<usize, usize>,
    pub config: Value,
    stale_disconnect_targets: BTreeSet<usize>,
    strategy: Strategy,
    pub router_counters: Value,
    /// log router steps and observations too (replays)
    pub verbose: bool,
    /// counts everything observable a router step produced (events handled, notifications handed out)
    progress: u64,
    /// slab slot of connections the router has registered but whose CONNACK the link has not collected yet
    slot_hint: BTreeMap<usize, usize>,
    /// fault enumeration: end the session of actor 0 before operation `at` in flavour `flavour` (0..4)
    pub inject: Option<(u64, u8)>,
    pub ops_total: u64,
    /// constructed with an explicit trigger set (the seed's own draw is skipped)
    pub forced: bool,
    /// enumerated symbol sequence this history executed (empty for random histories)
    pub symbols: Vec<u8>,
}

fn qos_of(n: u8) -> QoS {
    crate::gen::dpkt::qos(n)
}

impl History {
    pub fn new(seed: u64, profile: &Profile, force_triggers: Option<Triggers>) -> History {
        let mut rng = Rng::new(seed);
        let max_out = *rng.pick(&profile.max_outgoing);
        let strategy = rng.pick(&profile.strategies).clone();
        let seg = *rng.pick(&profile.segments);
        let mut cfg = router_config(profile.max_connections, max_out, seg.0, seg.1);
        cfg.shared_subscriptions_strategy = strategy.clone();
        let s4 = S4::new(cfg);
        let mut model = Model::new(profile.max_connections);
        model.qos0_batch = max_out as usize;
        model.lossy = seg.0 < 1024 * 1024;
        let forced = force_triggers.is_some();
        let (triggers, triggered) = match force_triggers {
            Some(t) => (t, true),
            None => {
                if rng.below(1000) < profile.trigger_pm {
                    (Triggers::pick_some(&mut rng), true)
                } else {
                    (Triggers::default(), false)
                }
            }
        };
        let n = rng.range(profile.clients.0, profile.clients.1) as usize;
        let mut actors = vec![];
        for i in 0..n {
            let guarded = profile.guarded_pair && i < 2;
            let name = if guarded {
                ["P", "S"][i].to_owned()
            } else if rng.below(1000) < profile.bad_id_pm {
                format!("{}{i}", rng.pick(&["a/b", "x+", "$y", "#", "+", "q#r"]))
            } else {
                format!("c{i}")
            };
            if guarded {
                model.guarded_clients.insert(name.clone());
            }
            actors.push(Actor {
                name,
                persistent: !guarded && rng.below(1000) < profile.persistent_pm,
                next_pkid: 1,
                alias_max: if !guarded && rng.below(1000) < profile.alias_pm { *rng.pick(&[1u16, 2, 10]) } else { 0 },
                uses_sub_ids: rng.below(1000) < profile.sub_id_pm,
                guarded,
                ..Default::default()
            });
        }
        let config = json!({"max_segment_size": seg.0, "max_segment_count": seg.1, "max_outgoing_packet_count": max_out, "strategy": format!("{strategy:?}"), "max_connections": profile.max_connections, "clients": n});
        History {
            directed: None,
            seed,
            profile: profile.clone(),
            s4,
            model,
            actors,
            rng,
            oplog: vec![],
            records: vec![],
            triggers,
            triggered,
            msg_counter: 0,
            corner: BTreeMap::new(),
            sigs: BTreeSet::new(),
            trans: BTreeSet::new(),
            last_sig: BTreeMap::new(),
            shape: vec![],
            inconclusive: None,
            ops_count: BTreeMap::new(),
            link_actor: BTreeMap::new(),
            config,
            stale_disconnect_targets: BTreeSet::new(),
            strategy,
            router_counters: Value::Null,
            verbose: false,
            progress: 0,
            slot_hint: BTreeMap::new(),
            inject: None,
            ops_total: 0,
            forced,
            symbols: vec![],
        }
    }

    fn log(&mut self, s: String) {
        // (the log of a history is capped; once it is full the oldest half makes room, so that the end – where a
        // record is raised – is always there)
        if self.oplog.len() >= 4000 {
            self.oplog.drain(0..2000);
            self.oplog.insert(0, "[... earlier operations dropped from this log ...]".into());
        }
        self.oplog.push(s);
    }

    fn op(&mut self, k: &'static str, code: u8) {
        *self.ops_count.entry(k).or_default() += 1;
        self.shape.push(code);
    }

    pub fn corner(&mut self, k: &'static str) {
        *self.corner.entry(k).or_default() += 1;
    }

    pub fn done(&self) -> bool {
        !self.records.is_empty() || self.inconclusive.is_some()
    }

    // ------------------------------------------------------------ router stepping + model sync

    pub fn step(&mut self, kind: Step) -> bool {
        if self.done() {
            return false;
        }
        if kind == Step::Turn {
            return self.turn();
        }
        let before = self.progress;
        let out = self.s4.step(kind);
        self.sync(out, kind);
        self.progress != before
    }

    /// One turn of the router loop. `run_inner` starts with one `consume()`; what that consume hands
    /// out precedes the events of the same turn, so the production function is only used as a
    /// whole when nothing is ready (then every notification of the turn follows its events and
    /// the model can be fed in order). Otherwise the same loop structure is driven through the
    /// single-step hooks (1 consume, up to 501 events, 100 consumes) with the model in lock-step.
    fn turn(&mut self) -> bool {
        let ready_empty = self.s4.snapshot().map(|s| s.readyqueue.is_empty()).unwrap_or(true);
        let before = self.progress;
        // events that can end somebody else's connection (connects, disconnects, raw and stale events) are
        // stepped one at a time so the router's state is compared with the model after each of them
        let only_own_traffic = self.s4.pending_events().all(|e| match e {
            ShadowEv::DeviceData(l) | ShadowEv::Ready(l) => self.model.is_live(*l),
            ShadowEv::PublishWill(_) => true,
            _ => false,
        });
        if ready_empty && only_own_traffic {
            let out = self.s4.step(Step::Turn);
            *self.ops_count.entry("router-turn-real").or_default() += 1;
            self.sync(out, Step::Turn);
            return self.progress != before;
        }
        *self.ops_count.entry("router-turn-emulated").or_default() += 1;
        let out = self.s4.step(Step::Consume);
        self.sync(out, Step::Consume);
        for _ in 0..501 {
            if self.done() {
                return true;
            }
            let out = self.s4.step(Step::Event);
            if !out.progressed && out.handled.is_empty() && out.panic.is_none() {
                break;
            }
            self.sync(out, Step::Event);
        }
        for _ in 0..100 {
            if self.done() {
                return true;
            }
            let out = self.s4.step(Step::Consume);
            if !out.progressed && out.panic.is_none() {
                break;
            }
            self.sync(out, Step::Consume);
        }
        if self.progress == before {
            // the ready queue is not empty but a whole turn handed out nothing: the router spins
            self.corner("router-spinning-without-output");
            // the production loop itself has to come back from this state too (its consumes are bounded): one real
            // turn, which by definition of the state hands out nothing; if it never returns the step supervisor
            // (`crate::watch`) sees a step that only consumes CPU time
            if self.s4.pending_events().next().is_none() && !self.done() {
                let out = self.s4.step(Step::Turn);
                *self.ops_count.entry("router-turn-real-while-spinning").or_default() += 1;
                self.sync(out, Step::Turn);
            }
        }
        self.progress != before
    }

    fn occupant(&self, link: usize) -> Option<usize> {
        // the live link that currently owns the slab slot this (possibly stale) link was given
        let id = self.s4.links[link].conn_id?;
        (0..self.s4.links.len()).find(|l| (self.s4.links[*l].conn_id == Some(id) || self.slot_hint.get(l) == Some(&id)) && self.model.is_live(*l))
    }

    fn sync(&mut self, out: StepOut, kind: Step) {
        let mut last_event = String::new();
        let mut last_id_state = "live";
        if self.verbose {
            self.log(format!("    [router {kind:?}: handled {:?}]", out.handled));
        }
        self.progress += out.handled.len() as u64;
        for ev in out.handled.iter() {
            last_event = match ev {
                ShadowEv::Connect(_) => "Connect".to_owned(),
                ShadowEv::DeviceData(_) => "DeviceData".to_owned(),
                ShadowEv::Ready(_) => "Ready".to_owned(),
                ShadowEv::Disconnect(_) => "Disconnect".to_owned(),
                ShadowEv::PublishWill(_) => "PublishWill".to_owned(),
                ShadowEv::Raw { kind, .. } => kind.clone(),
            };
            match ev {
                ShadowEv::Connect(l) => {
                    let will = self.will_of(*l);
                    self.model.ev_connect(*l, will);
                }
                ShadowEv::DeviceData(l) => {
                    // DeviceData only says "look at the buffer of slot id": it reaches whoever owns the slot now
                    match self.occupant(*l) {
                        Some(target) => {
                            let batch = self.s4.take_shadow_in(target);
                            if std::env::var("VERIF_DEBUG_MODEL").is_ok() {
                                eprintln!("    batch of link {target}: {batch:?}");
                            }
                            self.model.ev_device_data(target, &batch);
                            if target != *l {
                                self.corner("stale-event-delivered");
                            }
                        }
                        None => {
                            last_id_state = "removed";
                            self.model.ev_other();
                        }
                    }
                }
                ShadowEv::Ready(l) => {
                    if self.occupant(*l).is_none() {
                        last_id_state = "removed";
                    } else if !self.model.is_live(*l) {
                        self.corner("stale-event-delivered");
                    }
                    self.model.ev_other();
                }
                ShadowEv::Disconnect(l) => {
                    if !self.model.is_live(*l) {
                        last_id_state = if self.occupant(*l).is_some() { "recycled" } else { "removed" };
                        if let Some(victim) = self.occupant(*l) {
                            self.stale_disconnect_targets.insert(victim);
                            self.corner("stale-event-delivered");
                        }
                    }
                    self.model.ev_disconnect(*l);
                }
                ShadowEv::PublishWill(c) => self.model.ev_will(c),
                ShadowEv::Raw { id, kind } => {
                    // an event fabricated for an id nobody owned when it was sent acts on whoever owns the slot now
                    let owner = (0..self.s4.links.len()).find(|l| (self.s4.links[*l].conn_id == Some(*id) || self.slot_hint.get(l) == Some(id)) && self.model.is_live(*l));
                    last_id_state = if owner.is_some() { "live" } else { "unknown" };
                    match (kind.as_str(), owner) {
                        ("DeviceData", Some(target)) => {
                            let batch = self.s4.take_shadow_in(target);
                            self.model.ev_device_data(target, &batch);
                            self.corner("stale-event-delivered");
                        }
                        ("Disconnect", Some(victim)) => {
                            self.stale_disconnect_targets.insert(victim);
                            self.corner("stale-event-delivered");
                            self.model.ev_other();
                        }
                        _ => self.model.ev_other(),
                    }
                }
            }
        }
        if let Some(p) = out.panic {
            let site = panic_site(&p);
            let what = if kind == Step::Consume || out.handled.is_empty() { "consume".to_owned() } else { last_event.clone() };
            self.records.push(
                Record::new("C03", "panic", format!("router step panicked at {}: {} (while handling {what})", p.location, p.message))
                    .fact("site", site)
                    .fact("event", what.clone())
                    .fact("id_state", last_id_state.clone()),
            );
            // a router panic takes the broker away from everybody, the well-behaved pair included
            let guarded_up = self.actors.iter().any(|a| a.guarded && a.link.map(|l| self.model.is_live(l)).unwrap_or(false));
            if guarded_up {
                self.records.push(
                    Record::new("C14", "broker-lost", format!("the router panicked at {}: {} (while handling {what}) with the well-behaved pair connected", p.location, p.message))
                        .fact("site", panic_site(&p))
                        .fact("id_state", last_id_state),
                );
            }
            return;
        }
        // answers to connects
        for o in self.s4.poll_pendings() {
            match o {
                ConnectOutcome::Accepted { link, connack, .. } => {
                    let mut r = self.model.connect_outcome(link, true);
                    if r.is_empty() {
                        r = self.model.observe(link, &connack);
                        if self.model.conns[link].session_present {
                            self.corner("resume-session-present");
                        }
                    }
                    self.records.extend(r);
                }
                ConnectOutcome::Rejected { link } => {
                    // a connect the router registered and then lost again before answering is a close, not a refusal
                    let r = if self.model.is_live(link) && self.stale_disconnect_targets.contains(&link) {
                        self.model.observe_closed(link, "stale-disconnect")
                    } else {
                        let client = self.model.conns[link].client.clone();
                        if self.model.sessions.get(&client).map(|s| s.saved).unwrap_or(false) {
                            self.corner("refused-connect-with-saved-session");
                        }
                        self.model.connect_outcome(link, false)
                    };
                    self.records.extend(r);
                    if let Some(a) = self.link_actor.get(&link).copied() {
                        if self.actors[a].link == Some(link) {
                            self.actors[a].link = None;
                        }
                    }
                }
            }
        }
        if !self.records.is_empty() {
            return;
        }
        // liveness reconciliation and structural invariants from the router's own snapshot
        if let Some(snap) = self.s4.snapshot() {
            self.router_counters = serde_json::to_value(&snap.counters).unwrap_or(Value::Null);
            if std::env::var("VERIF_DEBUG_WIN").is_ok() {
                for c in snap.connections.iter() {
                    let l = self.model.conns.iter().position(|m| m.state == ConnState::Live && m.client == c.client_id);
                    if let Some(l) = l {
                        let m = &self.model.conns[l];
                        eprintln!("    win {}: router inflight {} head {:?} pubrels {:?} status {} | model out_fifo {} head {:?} rel_fifo {:?}", c.client_id, c.inflight.len(), c.inflight.first(), c.unacked_pubrels, c.status, m.out_fifo.len(), m.out_fifo.front().map(|e| e.pkid), m.rel_fifo);
                    }
                }
            }
            let map: BTreeMap<&str, usize> = snap.connection_map.iter().map(|(k, v)| (k.as_str(), *v)).collect();
            for l in 0..self.model.conns.len() {
                if self.model.conns[l].state != ConnState::Live {
                    self.slot_hint.remove(&l);
                    continue;
                }
                let client = self.model.conns[l].client.clone();
                if self.s4.links[l].conn_id.is_none() {
                    if let Some(id) = map.get(client.as_str()) {
                        self.slot_hint.insert(l, *id);
                    }
                }
                let present = match (map.get(client.as_str()), self.s4.links[l].conn_id) {
                    (Some(id), Some(mine)) => *id == mine,
                    (Some(_), None) => true,
                    (None, _) => false,
                };
                if !present {
                    let ctx = if self.stale_disconnect_targets.contains(&l) { "stale-disconnect" } else { "none" };
                    let r = self.model.observe_closed(l, ctx);
                    self.records.extend(r);
                    self.detach(l);
                } else if self.model.conns[l].must_close.is_some() {
                    let r = self.model.observe_still_open(l);
                    self.records.extend(r);
                }
            }
            // C19 / C03 structural invariants
            let ids: BTreeSet<usize> = snap.connection_map.iter().map(|(_, v)| *v).collect();
            let keys = &snap.slab_keys;
            let mut bad = None;
            if ids.len() != snap.connection_map.len() {
                bad = Some("two client ids map to one connection");
            } else if snap.connections.len() > self.profile.max_connections {
                bad = Some("more live connections than max_connections");
            } else if !(keys[0] == keys[1] && keys[1] == keys[2] && keys[2] == keys[3] && keys[3] == keys[4]) {
                bad = Some("connection slabs are not key-aligned");
            } else if ids.iter().any(|i| !keys[0].contains(i)) {
                bad = Some("connection_map points at a dead slot");
            } else if snap.connections.len() != snap.connection_map.len() {
                bad = Some("a live connection is not in connection_map (two connections with one client id)");
            }
            if let Some(b) = bad {
                let prop = if b.contains("slab") || b.contains("dead slot") { "C03" } else { "C19" };
                self.records.push(Record::new(prop, "router-invariant", format!("router state invariant broken: {b}")).fact("which", b));
            }
            self.census(&snap);
        }
        if !self.records.is_empty() {
            return;
        }
        // what the router handed to each link in this step
        for l in 0..self.s4.links.len() {
            let new = self.s4.peek_new(l);
            self.progress += new.len() as u64;
            for n in new.iter() {
                if self.verbose {
                    let d = match n {
                        Notification::Forward(f) => {
                            let p = parts(&f.publish);
                            format!("Forward topic={:?} payload={:?} qos={} pkid={} retain={} props={:?}", p.topic, p.payload, p.qos, p.pkid, p.retain, f.properties)
                        }
                        other => format!("{other:?}"),
                    };
                    self.log(format!("    [-> link {l} ({})] {d}", self.s4.links[l].client_id));
                }
                let r = self.model.observe(l, n);
                if !r.is_empty() {
                    self.records.extend(r);
                    return;
                }
            }
        }
    }

    fn detach(&mut self, link: usize) {
        if let Some(a) = self.link_actor.get(&link).copied() {
            if self.actors[a].link == Some(link) {
                self.actors[a].link = None;
                self.actors[a].old_links.push(link);
                self.actors[a].acks.clear();
                self.actors[a].owes_ready = false;
                self.actors[a].poisoned = false;
                if !self.actors[a].persistent {
                    self.actors[a].held.clear();
                }
            }
        }
    }

    fn census(&mut self, snap: &rumqttd::verif::RouterSnapshot) {
        for c in snap.connections.iter() {
            let bucket = |n: usize| match n {
                0 => "0",
                1..=9 => "1-9",
                10..=99 => "10-99",
                100 => "100",
                _ => ">100",
            };
            let parked = snap.logs.iter().any(|l| l.parked.iter().any(|(id, _)| *id == c.id));
            let sig = format!("{}|in{}|out{}|parked{}|req{}", c.status, bucket(c.inflight.len()), bucket(c.outgoing_len), parked as u8, c.data_requests.len().min(3));
            if let Some(prev) = self.last_sig.get(&c.id).cloned() {
                if prev != sig {
                    let (ps, ns) = (prev.split('|').next().unwrap_or("").to_owned(), c.status.clone());
                    if ps == "Caughtup" && ns == "Ready" {
                        self.corner("woken-from-caughtup");
                    }
                    if ps == "InflightFull" && ns != "InflightFull" {
                        self.corner("resumed-from-inflight-full");
                    }
                    if ps == "Busy" && ns != "Busy" && prev.contains("out") {
                        self.corner("resumed-from-busy");
                    }
                    self.trans.insert((prev.clone(), sig.clone()));
                }
            }
            if c.status == "InflightFull" {
                self.corner("inflight-full");
            }
            self.last_sig.insert(c.id, sig.clone());
            self.sigs.insert(sig);
        }
        if snap.readyqueue.iter().any(|id| !snap.slab_keys[0].contains(id)) {
            self.corner("stale-readyqueue-entry");
        }
    }

    fn will_of(&self, link: usize) -> Option<Will> {
        let a = self.link_actor.get(&link)?;
        let actor = &self.actors[*a];
        if !actor.has_will {
            return None;
        }
        Some(Will {
            topic: self.will_topic(*a).into_bytes(),
            payload: format!("W:{}:{}", actor.name, link),
            retain: false,
            props: None,
        })
    }

    fn will_topic(&self, a: usize) -> String {
        self.profile.topics[a % self.profile.topics.len()].to_owned()
    }

    // ------------------------------------------------------------ client actions

    pub fn connect(&mut self, a: usize, clean_override: Option<bool>) -> Option<usize> {
        if self.s4.queued() > 800 {
            self.step(Step::Turn);
        }
        let name = self.actors[a].name.clone();
        let clean = clean_override.unwrap_or(!self.actors[a].persistent);
        let takeover = self.actors[a].link.is_some();
        let has_will = !self.actors[a].guarded && self.rng.below(1000) < self.profile.will_pm;
        self.actors[a].has_will = has_will;
        let link_no = self.s4.links.len();
        let will = if has_will {
            Some(LastWill {
                topic: Bytes::from(self.will_topic(a)),
                message: Bytes::from(format!("W:{name}:{link_no}")),
                qos: QoS::AtMostOnce,
                retain: false,
            })
        } else {
            None
        };
        let alias_max = self.actors[a].alias_max;
        let link = self.s4.begin_connect(&name, clean, will, None, alias_max)?;
        self.link_actor.insert(link, a);
        self.model.connect_sent(link, &name, clean, alias_max, has_will);
        if takeover {
            let old = self.actors[a].link.unwrap();
            self.actors[a].old_links.push(old);
            self.corner("takeover");
        }
        let resumed = !clean && self.model.sessions.get(&name).map(|s| s.saved || s.live.is_some()).unwrap_or(false);
        let act = &mut self.actors[a];
        act.link = Some(link);
        act.acks.clear();
        act.owes_ready = false;
        act.poisoned = false;
        act.next_pkid = 1;
        act.qos2_unreleased.clear();
        act.out_aliases.clear();
        act.pushed_unnotified = false;
        if clean {
            act.held.clear();
            act.resumed = false;
        } else if resumed {
            act.resumed = true;
        }
        self.op("connect", 1);
        self.log(format!("connect {name} clean={clean} takeover={takeover} will={has_will} alias_max={alias_max} -> link {link}"));
        Some(link)
    }

    fn usable(&self, a: usize) -> Option<usize> {
        let l = self.actors[a].link?;
        if self.actors[a].poisoned || self.s4.links[l].tx.is_none() || !self.model.is_live(l) || self.model.conns[l].undefined {
            return None;
        }
        Some(l)
    }

    fn pkid(&mut self, a: usize) -> u16 {
        let p = self.actors[a].next_pkid;
        self.actors[a].next_pkid = if p == u16::MAX { 1 } else { p + 1 };
        p
    }

    fn push(&mut self, a: usize, link: usize, p: Packet, notify_now: bool) {
        self.s4.push(link, p);
        if notify_now {
            if self.s4.queued() > 800 {
                self.step(Step::Turn);
            }
            self.s4.notify(link);
            self.actors[a].pushed_unnotified = false;
        } else {
            self.actors[a].pushed_unnotified = true;
        }
    }

    pub fn publish(&mut self, a: usize, topic: &str, qos: u8, retain: bool, empty: bool, props: Option<PublishProperties>, notify_now: bool) -> bool {
        let Some(link) = self.usable(a) else { return false };
        self.msg_counter += 1;
        let payload = if empty { String::new() } else { format!("{}:{}", self.actors[a].name, self.msg_counter) };
        let pkid = if qos > 0 { self.pkid(a) } else { 0 };
        // a topic alias that this connection has used before stands for the topic: send it empty (half of the time)
        // (for *this* topic: an alias may have been re-mapped since)
        let alias_known = props.as_ref().and_then(|p| p.topic_alias).map(|al| self.actors[a].out_aliases.get(topic) == Some(&al) && self.model.conns[link].aliases_in.get(&al).map(|t| t == topic).unwrap_or(false)).unwrap_or(false);
        let wire_topic: &[u8] = if alias_known && self.rng.chance(1, 2) { b"" } else { topic.as_bytes() };
        let p = mk_publish(false, qos, pkid, retain, wire_topic, payload.as_bytes());
        if qos == 2 {
            self.actors[a].qos2_unreleased.push_back(pkid);
        }
        self.actors[a].publishes += 1;
        self.push(a, link, Packet::Publish(p, props), notify_now);
        self.op("publish", 2 + qos);
        self.log(format!("publish {} topic={topic} qos={qos} retain={retain} payload='{payload}' pkid={pkid}", self.actors[a].name));
        true
    }

    pub fn subscribe(&mut self, a: usize, filters: &[(String, u8)], notify_now: bool) -> bool {
        let Some(link) = self.usable(a) else { return false };
        let pkid = self.pkid(a);
        let fs: Vec<Filter> = filters
            .iter()
            .map(|(p, q)| Filter {
                path: p.clone(),
                qos: qos_of(*q),
                nolocal: false,
                preserve_retain: false,
                retain_forward_rule: RetainForwardRule::OnEverySubscribe,
            })
            .collect();
        let props = if self.actors[a].uses_sub_ids {
            self.actors[a].sub_ids += 1;
            Some(SubscribeProperties {
                id: Some(self.actors[a].sub_ids + 100 * (a + 1)),
                user_properties: vec![],
            })
        } else {
            None
        };
        for (p, q) in filters {
            self.actors[a].held.insert(p.clone(), *q);
        }
        self.push(a, link, Packet::Subscribe(Subscribe { pkid, filters: fs }, props.clone()), notify_now);
        self.op("subscribe", 6);
        self.log(format!("subscribe {} {:?} pkid={pkid} sub_id={:?}", self.actors[a].name, filters, props.and_then(|p| p.id)));
        true
    }

    pub fn unsubscribe(&mut self, a: usize, filters: &[String], notify_now: bool) -> bool {
        let Some(link) = self.usable(a) else { return false };
        let pkid = self.pkid(a);
        for f in filters {
            self.actors[a].held.remove(f);
        }
        self.push(a, link, Packet::Unsubscribe(Unsubscribe { pkid, filters: filters.to_vec() }, None), notify_now);
        self.op("unsubscribe", 7);
        self.log(format!("unsubscribe {} {:?} pkid={pkid}", self.actors[a].name, filters));
        true
    }

    pub fn ping(&mut self, a: usize) -> bool {
        let Some(link) = self.usable(a) else { return false };
        self.push(a, link, Packet::PingReq(PingReq), true);
        self.op("ping", 8);
        self.log(format!("ping {}", self.actors[a].name));
        true
    }

    pub fn disconnect_packet(&mut self, a: usize) -> bool {
        let Some(link) = self.usable(a) else { return false };
        self.push(
            a,
            link,
            Packet::Disconnect(
                Disconnect {
                    reason_code: DisconnectReasonCode::NormalDisconnection,
                },
                None,
            ),
            false,
        );
        self.push_trailing(link);
        self.s4.notify(link);
        self.actors[a].pushed_unnotified = false;
        self.actors[a].poisoned = true;
        self.op("disconnect-packet", 9);
        self.log(format!("DISCONNECT {}", self.actors[a].name));
        true
    }

    pub fn link_drop(&mut self, a: usize) -> bool {
        let Some(link) = self.actors[a].link else { return false };
        if self.s4.links[link].conn_id.is_none() || !self.model.is_live(link) {
            return false;
        }
        if self.s4.queued() > 800 {
            self.step(Step::Turn);
        }
        self.s4.disconnect_ev(link);
        self.actors[a].poisoned = true;
        self.op("link-drop", 10);
        self.log(format!("link drop {} (Event::Disconnect for link {link})", self.actors[a].name));
        true
    }

    /// The client collects what the router handed over and queues its protocol answers
    pub fn drain(&mut self, a: usize) -> usize {
        let Some(link) = self.actors[a].link else { return 0 };
        if self.s4.links[link].rx.is_none() {
            return 0;
        }
        let (got, closed) = self.s4.drain(link);
        let n = got.len();
        for note in got {
            match note {
                Notification::Forward(f) => {
                    let p = parts(&f.publish);
                    match p.qos {
                        1 => self.actors[a].acks.push_back(Packet::PubAck(
                            PubAck {
                                pkid: p.pkid,
                                reason: PubAckReason::Success,
                            },
                            None,
                        )),
                        2 => self.actors[a].acks.push_back(Packet::PubRec(
                            PubRec {
                                pkid: p.pkid,
                                reason: PubRecReason::Success,
                            },
                            None,
                        )),
                        _ => {}
                    }
                }
                Notification::DeviceAck(Ack::PubRec(r)) | Notification::DeviceAck(Ack::PubRecWithProperties(r, _)) => {
                    // publisher side of QoS 2: release in publish order
                    self.actors[a].qos2_unreleased.retain(|p| *p != r.pkid);
                    self.actors[a].acks.push_back(Packet::PubRel(
                        PubRel {
                            pkid: r.pkid,
                            reason: PubRelReason::Success,
                        },
                        None,
                    ));
                }
                Notification::DeviceAck(Ack::PubRel(r)) | Notification::DeviceAck(Ack::PubRelWithProperties(r, _)) => {
                    self.actors[a].acks.push_back(Packet::PubComp(
                        PubComp {
                            pkid: r.pkid,
                            reason: PubCompReason::Success,
                        },
                        None,
                    ));
                }
                Notification::Unschedule => self.actors[a].owes_ready = true,
                _ => {}
            }
        }
        if closed {
            self.s4.links[link].rx_closed = true;
        }
        if n > 0 {
            self.op("drain", 11);
            self.log(format!("drain {} -> {n} notifications", self.actors[a].name));
        }
        n
    }

    /// Push up to `n` owed acknowledgements, in order
    pub fn flush_acks(&mut self, a: usize, n: usize) -> usize {
        let Some(link) = self.usable(a) else { return 0 };
        let mut sent = 0;
        let mut dbg: Vec<String> = vec![];
        while sent < n {
            let Some(p) = self.actors[a].acks.pop_front() else { break };
            if std::env::var("VERIF_DEBUG_ACKS").is_ok() {
                dbg.push(match &p {
                    Packet::PubAck(x, _) => format!("A{}", x.pkid),
                    Packet::PubRec(x, _) => format!("R{}", x.pkid),
                    Packet::PubComp(x, _) => format!("C{}", x.pkid),
                    Packet::PubRel(x, _) => format!("L{}", x.pkid),
                    _ => "?".into(),
                });
            }
            self.s4.push(link, p);
            sent += 1;
        }
        if !dbg.is_empty() {
            let fwd: Vec<&String> = dbg.iter().filter(|x| !x.starts_with('L')).collect();
            eprintln!("    acks of {} (A=puback R=pubrec C=pubcomp; own-publish releases left out): {:?}", self.actors[a].name, fwd);
        }
        if sent > 0 {
            if self.s4.queued() > 800 {
                self.step(Step::Turn);
            }
            self.s4.notify(link);
            self.actors[a].pushed_unnotified = false;
            self.op("acks", 12);
            self.log(format!("{} sends {sent} acknowledgement(s)", self.actors[a].name));
        }
        sent
    }

    pub fn send_ready(&mut self, a: usize) -> bool {
        let Some(link) = self.usable(a) else { return false };
        if !self.actors[a].owes_ready {
            return false;
        }
        self.s4.ready(link);
        self.actors[a].owes_ready = false;
        self.op("ready", 13);
        self.log(format!("{} answers Unschedule with Ready", self.actors[a].name));
        true
    }

    pub fn notify_pending(&mut self, a: usize) -> bool {
        let Some(link) = self.actors[a].link else { return false };
        if !self.actors[a].pushed_unnotified || self.s4.links[link].conn_id.is_none() {
            return false;
        }
        self.s4.notify(link);
        self.actors[a].pushed_unnotified = false;
        self.op("notify", 14);
        true
    }

    // ------------------------------------------------------------ hostile actions

    fn bad_packet(&mut self, a: usize) -> bool {
        let Some(link) = self.usable(a) else { return false };
        if self.actors[a].guarded {
            return false;
        }
        let name = self.actors[a].name.clone();
        let k = self.rng.below(14);
        let pk = self.rng.range(1, 120) as u16;
        let (desc, packet, closes): (&str, Packet, bool) = match k {
            0 => ("unsolicited PUBACK", Packet::PubAck(PubAck { pkid: pk + 200, reason: PubAckReason::Success }, None), true),
            1 => ("unsolicited PUBREC", Packet::PubRec(PubRec { pkid: pk + 200, reason: PubRecReason::Success }, None), true),
            2 => ("unsolicited PUBCOMP", Packet::PubComp(PubComp { pkid: pk + 200, reason: PubCompReason::Success }, None), true),
            3 => ("SUBSCRIBE to $-filter", Packet::Subscribe(Subscribe { pkid: 9, filters: vec![Filter { path: "$SYS/x".into(), qos: QoS::AtMostOnce, nolocal: false, preserve_retain: false, retain_forward_rule: RetainForwardRule::Never }] }, None), true),
            4 => ("SUBSCRIBE with subscription id 0", Packet::Subscribe(Subscribe { pkid: 9, filters: vec![Filter { path: "zz".into(), qos: QoS::AtMostOnce, nolocal: false, preserve_retain: false, retain_forward_rule: RetainForwardRule::Never }] }, Some(SubscribeProperties { id: Some(0), user_properties: vec![] })), true),
            5 => ("PUBLISH with topic alias 0", Packet::Publish(mk_publish(false, 0, 0, false, b"a", b"U:alias0"), Some(PublishProperties { topic_alias: Some(0), ..Default::default() })), true),
            6 => ("PUBLISH with unknown alias and empty topic", Packet::Publish(mk_publish(false, 0, 0, false, b"", b"U:aliasunknown"), Some(PublishProperties { topic_alias: Some(77), ..Default::default() })), true),
            7 => ("PUBLISH with subscription identifiers", Packet::Publish(mk_publish(false, 0, 0, false, b"a", b"U:subids"), Some(PublishProperties { subscription_identifiers: vec![3], ..Default::default() })), true),
            8 => ("PUBLISH with non-UTF-8 topic", Packet::Publish(mk_publish(false, 0, 0, false, &[0xff, 0xfe, b'/', b'a'], b"U:nonutf8"), None), true),
            9 => ("CONNACK from a client", Packet::ConnAck(ConnAck { session_present: false, code: ConnectReturnCode::Success }, None), false),
            10 => ("SUBACK from a client", Packet::SubAck(SubAck { pkid: pk, return_codes: vec![] }, None), false),
            11 => ("PINGRESP from a client", Packet::PingResp(PingResp), false),
            12 => ("UNSUBACK from a client", Packet::UnsubAck(UnsubAck { pkid: pk, reasons: vec![] }, None), false),
            _ => ("PUBLISH with huge alias", Packet::Publish(mk_publish(false, 0, 0, false, b"a", b"U:aliashuge"), Some(PublishProperties { topic_alias: Some(60000), ..Default::default() })), true),
        };
        // out-of-order instead of unsolicited when the client owes acknowledgements
        if k == 0 && self.actors[a].acks.len() >= 2 {
            let second = self.actors[a].acks[1].clone();
            let second_pkid = match &second {
                Packet::PubAck(a, _) => a.pkid,
                Packet::PubRec(a, _) => a.pkid,
                _ => 0,
            };
            // (only if it really is out of order: the oldest unacknowledged forward is another one)
            let really = self.model.conns[link].out_fifo.front().map(|e| e.pkid != second_pkid).unwrap_or(true);
            if really && matches!(second, Packet::PubAck(..) | Packet::PubRec(..)) {
                self.s4.push(link, second);
                self.s4.notify(link);
                self.actors[a].poisoned = true;
                self.op("bad-out-of-order-ack", 20);
                self.log(format!("{name} acknowledges out of order"));
                return true;
            }
        }
        self.s4.push(link, packet);
        if closes {
            // what follows an offending packet in the same batch has no defined effect on *this* connection
            // (the model stops there) - but it must never reach anybody else
            self.push_trailing(link);
            self.actors[a].poisoned = true;
        }
        self.s4.notify(link);
        self.op("bad-packet", 21 + k as u8);
        self.log(format!("{name} sends {desc}"));
        true
    }

    /// Requests queued behind a packet that ends the connection: distinctive packet ids and `U:` payloads
    fn push_trailing(&mut self, link: usize) {
        if !self.rng.chance(2, 3) {
            return;
        }
        let n = self.rng.range(1, 3);
        for i in 0..n {
            // (what follows a fatal packet has no defined effect on its own connection, so a DISCONNECT there would make
            // the fate of that connection's will undefined: only will-less connections send one)
            // (nor connections of a client id for which a will of an earlier connection is still registered)
            let client = self.s4.links[link].client_id.clone();
            let kinds = if self.will_of(link).is_some() || self.model.wills.contains_key(&client) { 4 } else { 5 };
            let p = match self.rng.below(kinds) {
                0 => Packet::PingReq(PingReq),
                // (a DISCONNECT that reaches somebody else takes that client's will away and closes it)
                4 => Packet::Disconnect(Disconnect { reason_code: DisconnectReasonCode::NormalDisconnection }, None),
                1 => Packet::Subscribe(
                    Subscribe {
                        pkid: 6000 + i as u16,
                        filters: vec![Filter {
                            path: "zz/trailing".into(),
                            qos: QoS::AtLeastOnce,
                            nolocal: false,
                            preserve_retain: false,
                            retain_forward_rule: RetainForwardRule::Never,
                        }],
                    },
                    None,
                ),
                2 => Packet::Publish(mk_publish(false, 1, 6100 + i as u16, false, b"a/b", b"U:trailing"), None),
                _ => Packet::Unsubscribe(
                    Unsubscribe {
                        pkid: 6200 + i as u16,
                        filters: vec!["zz/none".into()],
                    },
                    None,
                ),
            };
            self.s4.push(link, p);
        }
        self.corner("packets-behind-fatal-packet");
    }

    fn raw_event(&mut self) -> bool {
        let ids: Vec<usize> = vec![0, 1, 2, 3, 7, 50];
        let id = *self.rng.pick(&ids);
        let live = self.s4.links.iter().enumerate().any(|(l, x)| x.conn_id == Some(id) && self.model.is_live(l));
        let k = self.rng.below(7);
        let (ev, kind): (Event, &str) = match k {
            0 => (Event::Ready, "Ready"),
            1 => (Event::DeviceData, "DeviceData"),
            2 => (Event::Disconnect, "Disconnect"),
            3 => (Event::SendAlerts, "SendAlerts"),
            4 => (Event::SendMeters, "SendMeters"),
            5 => (Event::Shadow(ShadowRequest { filter: "a".into() }), "Shadow"),
            6 => (Event::PublishWill(("nobody".into(), None)), "PublishWill"),
            _ => (Event::PrintStatus(Print::ReadyQueue), "PrintStatus"),
        };
        // events that act on a live connection go through the link actions; raw events here
        // target ids no live connection owns, or are id-less ticks
        let idless = matches!(k, 3 | 4 | 6 | 7);
        if live && !idless {
            return false;
        }
        if k == 5 && !self.triggers.shadow_unknown_id {
            return false;
        }
        if k == 0 && !self.triggers.stale_ready {
            return false;
        }
        if k == 2 && !self.triggers.stale_disconnect {
            // a Disconnect for a free slot hits whoever is given that slot before it is handled (KF-06)
            return false;
        }
        self.s4.raw(id, ev, kind);
        self.op("raw-event", 40 + k as u8);
        self.log(format!("raw event {kind} for id {id} (no live connection owns it)"));
        true
    }

    fn stale_event(&mut self) -> bool {
        // late events of a connection that has ended, as `remote()` can emit them
        let stale: Vec<usize> = (0..self.s4.links.len()).filter(|l| self.s4.links[*l].conn_id.is_some() && !self.model.is_live(*l) && matches!(self.model.conns[*l].state, ConnState::Closed(_))).collect();
        if stale.is_empty() {
            return false;
        }
        let l = *self.rng.pick(&stale);
        let recycled = self.occupant(l).is_some();
        let k = self.rng.below(4);
        match k {
            0 => {
                // device data: goes to whoever owns the slot now
                self.s4.notify(l);
                self.log(format!("stale DeviceData from ended link {l} (slot recycled: {recycled})"));
            }
            1 => {
                if !recycled && !self.triggers.stale_ready {
                    return false;
                }
                self.s4.ready(l);
                self.log(format!("stale Ready from ended link {l} (slot recycled: {recycled})"));
            }
            2 => {
                if recycled && !self.triggers.stale_disconnect {
                    return false;
                }
                // without the trigger no connect may be pending either: it could be given the slot before the event is handled
                if !self.triggers.stale_disconnect && self.s4.pending_events().any(|e| matches!(e, ShadowEv::Connect(_))) {
                    return false;
                }
                self.s4.disconnect_ev(l);
                self.log(format!("stale Disconnect from ended link {l} (slot recycled: {recycled})"));
                if !self.triggers.stale_disconnect {
                    // ... and it is handled before anything else can happen to the slot
                    while self.s4.queued() > 0 && !self.done() {
                        self.step(Step::Event);
                    }
                }
            }
            _ => {
                let c = self.s4.links[l].client_id.clone();
                self.s4.will_ev(&c);
                self.log(format!("late PublishWill for '{c}'"));
            }
        }
        if recycled {
            self.corner("slot-recycled");
        }
        self.op("stale-event", 50 + k as u8);
        true
    }

    // ------------------------------------------------------------ one random action

    pub fn random_action(&mut self) {
        if self.done() {
            return;
        }
        let w = self.profile.w.clone();
        let weights = [
            w.publish, w.subscribe, w.unsubscribe, w.ping, w.connect, w.disconnect_pkt, w.link_drop, w.takeover, w.drain, w.ack, w.step, w.notify,
            if self.profile.hostile { w.bad } else { 0 },
            if self.profile.raw_events { w.raw } else { 0 },
            if self.profile.stale_events { w.stale } else { 0 },
            w.will_ev,
            w.stall,
        ];
        let k = self.rng.weighted(&weights);
        let n = self.actors.len();
        let a = self.rng.below(n as u64) as usize;
        let notify_now = self.profile.stepping == Stepping::Turns || self.rng.chance(3, 4);
        match k {
            0 => {
                let topic = self.pick_topic();
                let qos = self.rng.weighted(&self.profile.qos_weights.clone()) as u8;
                let retain = self.rng.below(1000) < self.profile.retain_pm;
                let mut empty = retain && self.rng.chance(1, 4);
                if !retain && self.triggers.plain_empty_on_retained && self.rng.chance(1, 6) {
                    empty = true;
                }
                if self.rng.below(1000) < self.profile.burst_pm && !self.actors[a].guarded {
                    let cnt = self.rng.range(self.profile.burst.0, self.profile.burst.1);
                    for i in 0..cnt {
                        self.publish(a, &topic, qos, false, false, None, i + 1 == cnt);
                    }
                    self.corner("burst");
                } else {
                    let props = self.random_props(a, &topic);
                    self.publish(a, &topic, qos, retain, empty, props, notify_now);
                }
            }
            1 => self.random_subscribe(a, notify_now),
            2 => self.random_unsubscribe(a, notify_now),
            3 => {
                self.ping(a);
            }
            4 => {
                if self.actors[a].link.is_none() || !self.model.is_live(self.actors[a].link.unwrap()) && !self.s4.is_pending(self.actors[a].link.unwrap()) {
                    // alternate the clean flag now and then (a shared subscription in a persistent session is a known-finding trigger)
                    let may_flip = self.profile.shared_pm == 0 || self.triggers.persistent_shared;
                    let clean = if may_flip && self.rng.chance(1, 5) { Some(self.rng.chance(1, 2)) } else { None };
                    self.connect(a, clean);
                }
            }
            5 => {
                if !self.actors[a].guarded {
                    self.disconnect_packet(a);
                }
            }
            6 => {
                if !self.actors[a].guarded {
                    self.link_drop(a);
                }
            }
            7 => {
                if !self.actors[a].guarded && self.usable(a).is_some() {
                    self.connect(a, None);
                }
            }
            8 => {
                if self.actors[a].stall == 0 {
                    self.drain(a);
                    if self.rng.chance(1, 2) {
                        self.send_ready(a);
                    }
                }
            }
            9 => {
                if self.actors[a].stall == 0 {
                    let n = match self.rng.below(4) {
                        0 => 1,
                        1 => self.rng.range(2, 10) as usize,
                        _ => usize::MAX,
                    };
                    self.flush_acks(a, n);
                    self.send_ready(a);
                }
            }
            10 => {
                let kind = match self.profile.stepping {
                    Stepping::Turns => Step::Turn,
                    Stepping::Single => {
                        if self.rng.chance(1, 2) {
                            Step::Event
                        } else {
                            Step::Consume
                        }
                    }
                    Stepping::Mixed => *self.rng.pick(&[Step::Turn, Step::Event, Step::Consume, Step::Consume]),
                };
                self.step(kind);
                for x in self.actors.iter_mut() {
                    x.stall = x.stall.saturating_sub(1);
                }
            }
            11 => {
                self.notify_pending(a);
            }
            12 => {
                self.bad_packet(a);
            }
            13 => {
                self.raw_event();
            }
            14 => {
                self.stale_event();
            }
            15 => {
                let c = self.actors[a].name.clone();
                if self.actors[a].link.map(|l| !self.model.is_live(l)).unwrap_or(false) {
                    self.s4.will_ev(&c);
                    self.op("will-event", 60);
                    self.log(format!("PublishWill for '{c}'"));
                }
            }
            _ => {
                if !self.actors[a].guarded {
                    self.actors[a].stall = self.rng.range(2, 30) as u32;
                    self.corner("consumer-stalled");
                }
            }
        }
    }

    /// MQTT 5 properties for a publish: payload/user properties, and now and then a topic alias
    /// (first use establishes it together with the topic, later uses send an empty topic)
    fn random_props(&mut self, a: usize, topic: &str) -> Option<PublishProperties> {
        let mut p = PublishProperties::default();
        let mut any = false;
        if self.rng.below(1000) < self.profile.props_pm {
            any = true;
            match self.rng.below(4) {
                0 => p.user_properties = vec![("k".into(), format!("v{}", self.msg_counter))],
                1 => p.content_type = Some("text/plain".into()),
                2 => {
                    p.response_topic = Some("resp/t".into());
                    p.correlation_data = Some(Bytes::from_static(b"corr"));
                }
                _ => p.payload_format_indicator = Some(1),
            }
        }
        if self.rng.below(1000) < self.profile.pub_alias_pm && !self.actors[a].guarded {
            any = true;
            let next = self.actors[a].out_aliases.len() as u16 + 1;
            // now and then an alias that stands for another topic is re-mapped to this one (MQTT 5 3.3.2.3.4)
            if !self.actors[a].out_aliases.contains_key(topic) && !self.actors[a].out_aliases.is_empty() && self.rng.chance(1, 3) {
                let (old_topic, n) = self.actors[a].out_aliases.iter().next().map(|(t, n)| (t.clone(), *n)).unwrap();
                self.actors[a].out_aliases.remove(&old_topic);
                self.actors[a].out_aliases.insert(topic.to_owned(), n);
                self.corner("publisher-alias-remapped");
            }
            let alias = *self.actors[a].out_aliases.entry(topic.to_owned()).or_insert(next);
            p.topic_alias = Some(alias);
        }
        any.then_some(p)
    }

    fn pick_topic(&mut self) -> String {
        if self.triggers.multibyte_topic && self.rng.chance(1, 5) {
            return (*self.rng.pick(&["é/x", "€", "ü/b"])).to_owned();
        }
        (*self.rng.pick(&self.profile.topics.clone())).to_owned()
    }

    fn random_subscribe(&mut self, a: usize, notify_now: bool) {
        if self.usable(a).is_none() {
            return;
        }
        let count = if self.rng.chance(1, 6) { self.rng.range(2, 3) } else { 1 };
        let mut fs: Vec<(String, u8)> = vec![];
        for _ in 0..count {
            let f = (*self.rng.pick(&self.profile.filters.clone())).to_owned();
            let mut qos = self.rng.weighted(&self.profile.qos_weights.clone()) as u8;
            let shared = self.rng.below(1000) < self.profile.shared_pm;
            let path = if shared {
                let g = if self.triggers.group_two_filters { "g".to_owned() } else { format!("g-{}", f.replace(['/', '+', '#'], "_")) };
                format!("$share/{g}/{f}")
            } else {
                f.clone()
            };
            if shared && self.actors[a].persistent && !self.triggers.persistent_shared {
                continue;
            }
            if let Some(old) = self.actors[a].held.get(&path) {
                // the well-behaved pair never pulls a known-finding trigger
                if *old != qos && (!self.triggers.resub_other_qos || self.actors[a].guarded) {
                    qos = *old;
                }
            }
            if fs.iter().any(|(p, _)| p == &path) {
                continue;
            }
            // attribution must stay decidable: overlapping subscriptions of one client either carry
            // distinct subscription identifiers (one per SUBSCRIBE packet) or differ in QoS
            let in_packet = fs.iter().any(|(p, q)| *q == qos && overlap(p, &path));
            // (a resumed session loses its subscription identifiers, so persistent clients rely on QoS alone)
            let ids_reliable = self.actors[a].uses_sub_ids && !self.actors[a].persistent && !self.actors[a].resumed;
            let with_held = !ids_reliable && self.actors[a].held.iter().any(|(p, q)| p != &path && *q == qos && overlap(p, &path));
            if in_packet || with_held {
                continue;
            }
            fs.push((path.clone(), qos));
            // a plain and a shared subscription on one filter: the connection is parked twice in one commit log
            if !shared && !self.actors[a].guarded && !self.actors[a].persistent && self.rng.below(1000) < self.profile.twin_pm {
                let twin = format!("$share/g-{}/{f}", f.replace(['/', '+', '#'], "_"));
                let tq = (qos + 1) % 3;
                // (the same decidability rule as above applies to the twin)
                let clash_packet = fs.iter().any(|(p, q)| *q == tq && overlap(p, &twin));
                let clash_held = self.actors[a].held.iter().any(|(p, q)| p != &twin && *q == tq && overlap(p, &twin));
                if !self.actors[a].held.contains_key(&twin) && !fs.iter().any(|(p, _)| p == &twin) && !self.triggers.group_two_filters && !clash_packet && !clash_held {
                    fs.push((twin, tq));
                }
            }
        }
        if !fs.is_empty() {
            self.subscribe(a, &fs, notify_now);
        }
    }

    fn random_unsubscribe(&mut self, a: usize, notify_now: bool) {
        if self.usable(a).is_none() {
            return;
        }
        if self.actors[a].resumed && !self.triggers.unsub_after_resume {
            return;
        }
        let held: Vec<String> = self.actors[a].held.keys().cloned().collect();
        let link = self.actors[a].link.unwrap();

        // a subscribe still sitting in the batch counts as held only once the router has seen it
        let held: Vec<String> = held.into_iter().filter(|p| self.model.holds(&self.actors[a].name, p) || self.s4.links[link].shadow_in.iter().any(|x| matches!(x, Packet::Subscribe(s, _) if s.filters.iter().any(|f| &f.path == p)))).collect();
        let mut fs = vec![];
        let guarded = self.actors[a].guarded;
        if self.triggers.unsub_not_held && !guarded && self.rng.chance(1, 3) {
            fs.push("never/subscribed".to_owned());
        } else if self.triggers.unsub_multi && !guarded && held.len() >= 2 && self.rng.chance(1, 2) {
            fs.push(held[0].clone());
            fs.push(held[1].clone());
        } else if !held.is_empty() {
            fs.push(self.rng.pick(&held).clone());
        }
        if !fs.is_empty() {
            self.unsubscribe(a, &fs, notify_now);
        }
    }

    // ------------------------------------------------------------ settle + quiescence

    /// Every client collects, acknowledges in order, answers Unschedule; the router runs until it
    /// would block; repeated to a fixpoint. Returns false if the bound was exceeded.
    pub fn settle(&mut self) -> bool {
        let bound = 4 * (self.model.log.len() + self.actors.len()) + 60;
        for _round in 0..bound {
            if self.done() {
                return true;
            }
            let mut activity = false;
            for a in 0..self.actors.len() {
                self.actors[a].stall = 0;
                // an actor that stopped working because it expected to be closed, while neither the model nor the router
                // sees a reason for that once everything it sent has been handled, carries on (otherwise "everybody
                // has acknowledged" would be judged with its acknowledgements still queued)
                if self.actors[a].poisoned && self.s4.queued() == 0 {
                    if let Some(l) = self.actors[a].link {
                        let c = &self.model.conns[l];
                        if self.model.is_live(l) && c.must_close.is_none() && c.may_close.is_none() && !c.undefined && self.s4.links[l].shadow_in.is_empty() {
                            self.actors[a].poisoned = false;
                            self.corner("expected-close-did-not-apply");
                        }
                    }
                }
                if self.notify_pending(a) {
                    activity = true;
                }
                if self.drain(a) > 0 {
                    activity = true;
                }
                if self.flush_acks(a, usize::MAX) > 0 {
                    activity = true;
                }
                if self.send_ready(a) {
                    activity = true;
                }
            }
            let mut turns = 0;
            while self.step(Step::Turn) {
                activity = true;
                turns += 1;
                if turns > 10_000 {
                    self.inconclusive = Some("router never went idle within 10000 turns".into());
                    return false;
                }
                if self.done() {
                    return true;
                }
            }
            if !activity {
                return true;
            }
        }
        self.inconclusive = Some(format!("no quiescence within {bound} settle rounds"));
        false
    }

    /// Quiescent-point oracles; liveness records get the router's own view attached so that
    /// different ways of getting stuck have different signatures
    fn judge_quiescent(&mut self) {
        if std::env::var("VERIF_DEBUG_WIN").is_ok() {
            for a in 0..self.actors.len() {
                let usable = self.usable(a).is_some();
                let acks = self.actors[a].acks.len();
                let n = self.drain(a);
                eprintln!("    at quiescence: actor {} usable={usable} poisoned={} acks_queued={acks} still_undrained={n}", self.actors[a].name, self.actors[a].poisoned);
            }
        }
        let mut recs = self.model.quiescent();
        self.corner("quiescent-point");
        if let Some(snap) = self.s4.snapshot() {
            for r in recs.iter_mut().filter(|r| r.oracle == "shared-undelivered") {
                let group = r.facts.get("group").and_then(|v| v.as_str()).unwrap_or("").to_owned();
                let filter = r.facts.get("filter").and_then(|v| v.as_str()).unwrap_or("").to_owned();
                let g = snap.groups.iter().find(|g| g.name == group);
                let log = snap.logs.iter().find(|l| l.filter == filter);
                let behind = match (g, log) {
                    (Some(g), Some(l)) => g.cursor < l.next_offset,
                    _ => false,
                };
                let path = format!("$share/{group}/{filter}");
                // is the request of the member whose turn it is parked as "caught up"?
                let turn_member = g.and_then(|g| g.members.get(g.turn)).cloned();
                let turn_conn = turn_member.and_then(|m| snap.connection_map.iter().find(|(c, _)| c == &m).map(|(_, id)| *id));
                let turn_parked = match (turn_conn, log) {
                    (Some(id), Some(l)) => l.parked.iter().any(|(c, f)| *c == id && f == &path),
                    _ => false,
                };
                r.facts.insert("group_cursor_behind_log".into(), behind.into());
                r.facts.insert("turn_member_request_parked".into(), turn_parked.into());
                r.facts.remove("group");
                r.facts.remove("filter");
            }
        }
        self.records.extend(recs);
    }

    pub fn finish(&mut self) {
        if self.done() {
            return;
        }
        if self.settle() && !self.done() {
            self.judge_quiescent();
        }
    }

    /// Directed scenario: a client that stays connected but never collects what the broker hands it sends `rounds`
    /// requests, each in a batch of its own (more than the 200 wake-up tokens its link channel holds); everybody
    /// else keeps being served. With the well-behaved pair (C14) the pair works throughout.
    pub fn never_collecting_client(&mut self, rounds: usize) {
        crate::watch::set_history(self.replay_json());
        let n = self.actors.len();
        let lazy = n - 1;
        for a in 0..n {
            self.connect(a, None);
        }
        self.step(Step::Turn);
        if self.profile.guarded_pair {
            self.subscribe(1, &[("a/#".to_owned(), 1)], true);
            self.step(Step::Turn);
        }
        self.corner("client-never-collects");
        for i in 0..rounds {
            if self.done() {
                return;
            }
            self.ping(lazy);
            self.step(Step::Turn);
            if i % 16 == 0 {
                // the others are served meanwhile
                let other = if self.profile.guarded_pair { 0 } else { i / 16 % (n - 1) };
                self.publish(other, "a/b", (i % 3) as u8, false, false, None, true);
                self.step(Step::Turn);
                for a in 0..n - 1 {
                    self.drain(a);
                    self.flush_acks(a, usize::MAX);
                    self.send_ready(a);
                }
                self.step(Step::Turn);
            }
        }
    }

    /// Directed scenario (C09): a subscriber whose outbound window is (almost) full of unacknowledged QoS 1 forwards
    /// makes a new QoS 1 subscription that matches several retained messages: the retained replay has to fit into
    /// the free window slots like any other forward (D.41).
    pub fn retained_replay_into_full_window(&mut self) {
        crate::watch::set_history(self.replay_json());
        self.actors[0].persistent = false;
        self.connect(0, None);
        self.connect(1, None);
        self.step(Step::Turn);
        for t in ["a", "a/b", "a/c", "a/b/c"] {
            self.publish(1, t, 1, true, false, None, true);
        }
        self.step(Step::Turn);
        self.drain(1);
        self.subscribe(0, &[("b".to_owned(), 1)], true);
        self.step(Step::Turn);
        self.drain(0);
        // 96..=100 unacknowledged forwards: 4..0 free slots for 4 retained messages
        let n = 96 + self.rng.below(5);
        for _ in 0..n {
            self.publish(1, "b", 1, false, false, None, true);
        }
        for _ in 0..3 {
            self.step(Step::Turn);
            self.drain(0);
            self.send_ready(0);
            self.drain(1);
        }
        if self.done() {
            return;
        }
        self.corner("retained-replay-into-full-window");
        let f = (*self.rng.pick(&["a/#", "#", "a/+"])).to_owned();
        self.subscribe(0, &[(f, 1)], true);
        for _ in 0..2 {
            self.step(Step::Turn);
            self.drain(0);
            self.send_ready(0);
        }
        // now acknowledge everything and let the broker go idle
        for _ in 0..4 {
            if self.done() {
                return;
            }
            self.drain(0);
            self.flush_acks(0, usize::MAX);
            self.send_ready(0);
            self.drain(1);
            self.flush_acks(1, usize::MAX);
            self.step(Step::Turn);
        }
    }

    /// Directed scenario: an MQTT 5 subscriber whose Topic Alias Maximum is smaller than the number of concrete
    /// filters it holds; messages on all of them, then it unsubscribes / re-subscribes them in a seeded order.
    pub fn alias_limit_exceeded(&mut self) {
        crate::watch::set_history(self.replay_json());
        let max = *self.rng.pick(&[1u16, 1, 2]);
        self.actors[0].alias_max = max;
        self.actors[0].persistent = false;
        self.connect(0, None);
        self.connect(1, None);
        self.step(Step::Turn);
        let mut filters = vec!["a".to_owned(), "b".to_owned(), "a/b".to_owned(), "a/c".to_owned()];
        for i in (1..filters.len()).rev() {
            let j = self.rng.below(i as u64 + 1) as usize;
            filters.swap(i, j);
        }
        filters.truncate(max as usize + 1 + self.rng.below(2) as usize);
        self.corner("more-concrete-filters-than-aliases");
        for f in filters.clone() {
            let q = self.rng.below(3) as u8;
            self.subscribe(0, &[(f, q)], true);
            self.step(Step::Turn);
        }
        for round in 0..3 {
            for f in filters.clone() {
                self.publish(1, &f, (round % 3) as u8, false, false, None, true);
                self.step(Step::Turn);
            }
            self.drain(0);
            self.flush_acks(0, usize::MAX);
            self.drain(1);
            self.flush_acks(1, usize::MAX);
            self.step(Step::Turn);
            if self.done() {
                return;
            }
            // give one of them up (last subscribed first: that is the one beyond the limit), later take it again
            let k = if round == 0 { filters.len() - 1 } else { self.rng.below(filters.len() as u64) as usize };
            let f = filters[k].clone();
            self.unsubscribe(0, &[f.clone()], true);
            self.step(Step::Turn);
            if round == 1 {
                self.subscribe(0, &[(f, 1)], true);
                self.step(Step::Turn);
            } else {
                filters.remove(k);
            }
            if filters.is_empty() {
                break;
            }
        }
    }

    /// Directed scenario: two members of a shared group at QoS 1 and a backlog larger than both windows; one member
    /// acknowledges everything, the other nothing. Whenever the turn is the silent member's, the other one has room
    /// and unread messages but may not take them: the router polls it without output until the silent member moves.
    pub fn shared_turn_holder_stuck(&mut self) {
        crate::watch::set_history(self.replay_json());
        let n = self.actors.len();
        for a in 0..n.min(3) {
            self.actors[a].persistent = false;
            self.connect(a, None);
        }
        self.step(Step::Turn);
        let path = "$share/g-a/a".to_owned();
        self.subscribe(0, &[(path.clone(), 1)], true);
        self.subscribe(1, &[(path, 1)], true);
        self.step(Step::Turn);
        let publisher = if n > 2 { 2 } else { 1 };
        let total = 210 + self.rng.below(60);
        for i in 0..total {
            self.publish(publisher, "a", (i % 2) as u8, false, false, None, true);
            if i % 25 == 24 {
                self.step(Step::Turn);
            }
        }
        for _ in 0..6 {
            self.step(Step::Turn);
        }
        // member 1 acknowledges all it got, member 0 nothing: for a while the router has output for nobody
        let silent = self.rng.below(2) as usize;
        let busy = 1 - silent;
        for _ in 0..4 {
            if self.done() {
                return;
            }
            self.drain(busy);
            self.flush_acks(busy, usize::MAX);
            self.send_ready(busy);
            self.drain(publisher);
            self.flush_acks(publisher, usize::MAX);
            self.drain(silent);
            for _ in 0..3 {
                self.step(Step::Turn);
            }
        }
        self.corner("shared-turn-holder-silent");
    }

    /// Directed scenario: the broker's topic aliases towards an MQTT 5 subscriber are allocated on the first forward
    /// of a concrete filter, freed when it is unsubscribed and handed out again; retained messages exist on all the
    /// topics, so every new subscription starts with a replay (which may be sent with the alias only).
    pub fn alias_reuse_after_unsubscribe(&mut self) {
        crate::watch::set_history(self.replay_json());
        self.actors[0].alias_max = *self.rng.pick(&[1u16, 2, 2, 10]);
        self.actors[0].persistent = false;
        self.connect(0, None);
        self.connect(1, None);
        self.step(Step::Turn);
        let topics = ["a", "b", "a/b", "a/c"];
        for t in topics {
            self.publish(1, t, 1, true, false, None, true);
        }
        self.step(Step::Turn);
        self.corner("broker-alias-reuse");
        for round in 0..10 {
            if self.done() {
                return;
            }
            let t = (*self.rng.pick(&topics)).to_owned();
            let held = self.actors[0].held.contains_key(&t);
            if held {
                self.unsubscribe(0, &[t], true);
            } else {
                let q = self.rng.below(3) as u8;
                self.subscribe(0, &[(t.clone(), q)], true);
                self.step(Step::Turn);
                // a live message on it as well (second use of the alias: topic left out)
                self.publish(1, &t, (round % 2) as u8, false, false, None, true);
            }
            self.step(Step::Turn);
            self.drain(0);
            self.flush_acks(0, usize::MAX);
            self.drain(1);
            self.flush_acks(1, usize::MAX);
            self.step(Step::Turn);
        }
    }

    /// Run a whole random history
    pub fn run_random(&mut self) {
        crate::watch::set_history(self.replay_json());
        // everybody connects first (most histories), then the random walk
        let n = self.actors.len();
        let ops = self.rng.range(self.profile.ops.0, self.profile.ops.1);
        self.ops_total = ops;
        // in some histories the well-behaved subscriber arrives late: by then slots have been recycled and it may
        // inherit one (with whatever the previous owner left behind in the router)
        let late_s = if self.profile.guarded_pair && self.rng.chance(2, 5) { Some(self.rng.range(ops / 5, ops / 2 + 1)) } else { None };
        for a in 0..n {
            if (self.actors[a].guarded && !(a == 1 && late_s.is_some())) || (!self.actors[a].guarded && self.rng.chance(4, 5)) {
                self.connect(a, None);
            }
        }
        self.step(Step::Turn);
        if self.profile.guarded_pair && late_s.is_none() {
            self.subscribe(1, &[("a/#".to_owned(), 1)], true);
            self.step(Step::Turn);
        }
        let mut reconnect_at = None;
        for i in 0..ops {
            if self.done() {
                break;
            }
            if let Some((at, flavour)) = self.inject {
                if i == at {
                    self.end_session(0, flavour);
                    reconnect_at = Some(i + 1 + (at * 7 + flavour as u64) % 9);
                }
                if reconnect_at == Some(i) {
                    // come back with clean session off; whatever was accepted meanwhile is owed
                    let live = self.actors[0].link.map(|l| self.model.is_live(l)).unwrap_or(false);
                    if !live || flavour == 3 {
                        self.connect(0, Some(false));
                    }
                }
            }
            if late_s == Some(i) {
                self.corner("guarded-subscriber-arrives-late");
                self.connect(1, None);
                self.step(Step::Turn);
                self.subscribe(1, &[("a/#".to_owned(), 1)], true);
                self.step(Step::Turn);
            }
            self.random_action();
            if self.profile.guarded_pair && i % 7 == 0 {
                // the well-behaved pair keeps working throughout
                let q = (i % 3) as u8;
                self.publish(0, "a/b", q, false, false, None, true);
                self.drain(1);
                self.flush_acks(1, usize::MAX);
                self.send_ready(1);
                self.drain(0);
                self.flush_acks(0, usize::MAX);
            }
            if i % 40 == 39 && self.rng.chance(1, 2) {
                // an intermediate quiescent point
                if self.settle() && !self.done() {
                    self.judge_quiescent();
                }
            }
        }
        self.finish();
    }

    /// End actor `a`'s session now, in one of the four ways the statement of C08 names:
    /// 0 = DISCONNECT packet, 1 = link failure, 2 = router-initiated close (bad ack), 3 = take-over
    pub fn end_session(&mut self, a: usize, flavour: u8) {
        self.corner(match flavour {
            0 => "end-by-disconnect-packet",
            1 => "end-by-link-failure",
            2 => "end-by-router-close",
            _ => "end-by-takeover",
        });
        match flavour {
            0 => {
                self.disconnect_packet(a);
            }
            1 => {
                self.link_drop(a);
            }
            2 => {
                if let Some(link) = self.usable(a) {
                    self.s4.push(link, Packet::PubAck(PubAck { pkid: 999, reason: PubAckReason::Success }, None));
                    self.s4.notify(link);
                    self.actors[a].poisoned = true;
                    self.op("bad-packet", 21);
                    let name = self.actors[a].name.clone();
                    self.log(format!("{name} sends unsolicited PUBACK (forces a router-initiated close)"));
                }
            }
            _ => {
                if self.usable(a).is_some() {
                    self.connect(a, Some(false));
                }
            }
        }
    }

    pub fn set_persistent(&mut self, a: usize, persistent: bool) {
        self.actors[a].persistent = persistent;
    }

    pub fn actor_count(&self) -> usize {
        self.actors.len()
    }

    /// Fixed prologue of the enumerated short histories: two clients connected, overlapping plain and
    /// shared subscriptions, one QoS 1 message forwarded and not yet acknowledged.
    pub fn prologue(&mut self) {
        crate::watch::set_history(self.replay_json());
        self.set_persistent(0, true);
        self.set_persistent(1, false);
        self.actors[0].has_will = true;
        self.connect(0, None);
        self.connect(1, None);
        self.step(Step::Turn);
        self.subscribe(0, &[("a/#".to_owned(), 1)], true);
        self.subscribe(1, &[("a/b".to_owned(), 2), ("$share/g/a/+".to_owned(), 0)], true);
        self.step(Step::Turn);
        self.publish(1, "a/b", 1, false, false, None, true);
        self.step(Step::Turn);
    }

    pub const SYMBOLS: u8 = 38;

    /// One symbol of the abstract event alphabet (C03 enumeration). Symbols 0..16 exist per client.
    pub fn symbol(&mut self, sym: u8) {
        if self.done() {
            return;
        }
        let (a, k) = if sym < 32 { ((sym % 2) as usize, sym / 2) } else { (0, sym) };
        self.shape.push(100 + sym);
        match k {
            0 => {
                self.publish(a, "a/b", 0, false, false, None, true);
            }
            1 => {
                self.publish(a, "a/b", 1, true, false, None, true);
            }
            2 => {
                self.publish(a, "a/c", 2, false, false, None, true);
            }
            3 => {
                self.subscribe(a, &[("a/+".to_owned(), 1)], true);
            }
            4 => {
                let held: Vec<String> = self.actors[a].held.keys().take(1).cloned().collect();
                if !held.is_empty() {
                    self.unsubscribe(a, &held, true);
                }
            }
            5 => {
                self.disconnect_packet(a);
            }
            6 => {
                self.link_drop(a);
            }
            7 => {
                // reconnect or take over, session as configured
                self.connect(a, None);
            }
            8 => {
                self.connect(a, Some(true));
            }
            9 => {
                self.drain(a);
                self.flush_acks(a, usize::MAX);
                self.send_ready(a);
            }
            10 => {
                self.drain(a);
                self.flush_acks(a, 1);
            }
            11 => {
                // unsolicited / out-of-order acknowledgement
                if let Some(link) = self.usable(a) {
                    self.s4.push(link, Packet::PubAck(PubAck { pkid: 4242, reason: PubAckReason::Success }, None));
                    self.push_trailing(link);
                    self.s4.notify(link);
                    self.actors[a].poisoned = true;
                    self.op("bad-packet", 21);
                }
            }
            12 => {
                if let Some(link) = self.usable(a) {
                    self.s4.push(link, Packet::PubComp(PubComp { pkid: 4243, reason: PubCompReason::Success }, None));
                    self.s4.notify(link);
                    self.actors[a].poisoned = true;
                    self.op("bad-packet", 23);
                }
            }
            13 => {
                if let Some(link) = self.usable(a) {
                    self.s4.push(link, Packet::Publish(mk_publish(false, 1, 77, false, &[0xff, b'/', b'x'], b"U:nonutf8"), None));
                    self.push_trailing(link);
                    self.s4.notify(link);
                    self.actors[a].poisoned = true;
                    self.op("bad-packet", 29);
                }
            }
            14 => {
                // stale events of this client's previous link
                let old: Vec<usize> = self.actors[a].old_links.iter().copied().filter(|l| self.s4.links[*l].conn_id.is_some() && !self.model.is_live(*l)).collect();
                if let Some(l) = old.last().copied() {
                    self.s4.ready(l);
                    self.s4.notify(l);
                    self.op("stale-event", 50);
                }
            }
            15 => {
                let c = self.actors[a].name.clone();
                self.s4.will_ev(&c);
                self.op("will-event", 60);
            }
            32 => {
                self.step(Step::Turn);
            }
            33 => {
                self.step(Step::Event);
            }
            34 => {
                self.step(Step::Consume);
            }
            35 => {
                self.s4.raw(40, Event::Ready, "Ready");
                self.op("raw-event", 40);
            }
            36 => {
                self.s4.raw(41, Event::Shadow(ShadowRequest { filter: "a/b".into() }), "Shadow");
                self.op("raw-event", 45);
            }
            _ => {
                self.s4.raw(42, Event::DeviceData, "DeviceData");
                self.op("raw-event", 41);
            }
        }
    }

    pub fn shape_hash(&self) -> u64 {
        fnv(&self.shape)
    }

    pub fn replay_json(&self) -> Value {
        json!({
            "substrate": "S4",
            "directed": self.directed,
            "profile": self.profile.name,
            "case_seed": self.seed,
            "forced_trigger_free": self.forced,
            "symbols": self.symbols,
            "inject": self.inject.map(|(a, f)| vec![a, f as u64]),
            "config": self.config,
            "triggered": self.triggered,
            "triggers": format!("{:?}", self.triggers),
            "history": self.oplog,
            "router_steps": self.s4.steps,
            "model": self.model.describe(),
        })
    }

    pub fn absorb_into(&self, stats: &mut Stats) {
        stats.evaluations += 1;
        for (k, v) in self.ops_count.iter() {
            stats.opn(k, *v);
        }
        for (k, v) in self.model.evals.iter() {
            stats.oraclen(k, *v);
        }
        for (k, v) in self.corner.iter() {
            *stats.corners.entry((*k).to_owned()).or_default() += *v;
        }
        for s in self.sigs.iter() {
            stats.signatures.insert(s.clone());
        }
        for t in self.trans.iter() {
            stats.transitions.insert(t.clone());
        }
        stats.add_extra("router_steps", self.s4.steps);
        stats.add_extra("accepted_messages", self.model.log.len() as u64);
        stats.add_extra("pkid_reuse_before_pubcomp", self.model.pkid_reuse_before_pubcomp);
        stats.add_extra("retention_gaps_tolerated", self.model.gaps_tolerated);
        if self.model.lossy {
            *stats.corners.entry("small-retention-history".to_owned()).or_default() += 1;
        }
        if !self.corner.is_empty() {
            stats.shapes.insert(self.shape_hash());
        }
        if let Some(r) = &self.inconclusive {
            stats.inconclusive.push(format!("history seed {}: {r}", self.seed));
        }
    }
}

/// Do two filter paths (ignoring a $share prefix) possibly match a common topic?
pub fn overlap(a: &str, b: &str) -> bool {
    let strip = |p: &str| -> String { crate::model::mbroker::split_share(p).map(|x| x.1).unwrap_or_else(|| p.to_owned()) };
    let (a, b) = (strip(a), strip(b));
    let x: Vec<&str> = a.split('/').collect();
    let y: Vec<&str> = b.split('/').collect();
    let mut i = 0;
    loop {
        match (x.get(i), y.get(i)) {
            (Some(&"#"), _) | (_, Some(&"#")) => return true,
            (Some(p), Some(q)) => {
                if *p != "+" && *q != "+" && p != q {
                    return false;
                }
            }
            (None, None) => return true,
            _ => return false,
        }
        i += 1;
    }
}
