//! Execution substrates
pub mod s4;
pub mod s4drive;
pub mod codecs;
pub mod s3;
pub mod s2;
pub mod s5;
pub mod s6;
