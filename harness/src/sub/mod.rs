//! Execution substrates
