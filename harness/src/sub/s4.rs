//! Substrate S4: the real `rumqttd::Router` stepped on the calling thread through the
//! guarded hooks, with simulated link actors holding real `LinkTx` / `LinkRx`.
//!
//! The harness is the only sender on the router channel, so it keeps a shadow FIFO of
//! the events it sent; the router's own `events_handled` counter (IdleMarker) tells how
//! many of them a step consumed. Nothing here interprets MQTT: that is the model's job.
use crate::common::{guarded, PanicInfo};
use flume::Sender;
use rumqttd::local::{LinkBuilder, LinkRx, LinkTx};
use rumqttd::protocol::{LastWill, LastWillProperties, Packet};
use rumqttd::verif::{Event, IdleMarker, PendingLink, RouterSnapshot};
use rumqttd::{Notification, Router, RouterConfig};
use std::collections::VecDeque;
use std::sync::atomic::Ordering;
use std::sync::Arc;
use std::time::Instant;

#[derive(Clone, Debug, PartialEq, Eq)]
pub enum ShadowEv {
    Connect(usize),
    DeviceData(usize),
    Ready(usize),
    Disconnect(usize),
    PublishWill(String),
    /// any other event, or an event for a connection id that no link of ours owns
    Raw { id: usize, kind: String },
}

#[derive(Clone, Copy, Debug, PartialEq, Eq)]
pub enum Step {
    /// one production turn of the router loop (made non-blocking)
    Turn,
    /// one `events()` call
    Event,
    /// one `consume()` call
    Consume,
}

pub struct LinkState {
    pub client_id: String,
    pub conn_id: Option<usize>,
    pub tx: Option<LinkTx>,
    pub rx: Option<LinkRx>,
    pending: Option<PendingLink>,
    /// packets pushed into the incoming buffer that the router has not swapped out yet
    pub shadow_in: Vec<Packet>,
    /// notifications in the router-side outgoing buffer already shown to the observer
    seen: usize,
    /// the router dropped its side (seen when draining)
    pub rx_closed: bool,
    /// connect was refused by the router
    pub rejected: bool,
}

#[derive(Debug)]
pub enum ConnectOutcome {
    Accepted { link: usize, conn_id: usize, connack: Notification },
    Rejected { link: usize },
}

pub struct S4 {
    router: Option<Router>,
    tx: Sender<(usize, Event)>,
    idle: Arc<IdleMarker>,
    shadow: VecDeque<ShadowEv>,
    pub links: Vec<LinkState>,
    pub panicked: Option<PanicInfo>,
    pub steps: u64,
}

pub struct StepOut {
    /// events this step handed to `Router::events`, in order (on a panic the last one is the culprit)
    pub handled: Vec<ShadowEv>,
    pub progressed: bool,
    pub panic: Option<PanicInfo>,
}

impl S4 {
    pub fn new(config: RouterConfig) -> S4 {
        let mut router = Router::new(0, config);
        router.verif_stepping(true);
        let tx = router.verif_link();
        let idle = router.verif_idle();
        S4 {
            router: Some(router),
            tx,
            idle,
            shadow: VecDeque::new(),
            links: vec![],
            panicked: None,
            steps: 0,
        }
    }

    pub fn alive(&self) -> bool {
        self.router.is_some()
    }

    /// events sent and not yet handled by the router, oldest first
    pub fn pending_events(&self) -> impl Iterator<Item = &ShadowEv> {
        self.shadow.iter()
    }

    pub fn queued(&self) -> usize {
        self.tx.len()
    }

    fn send(&mut self, id: usize, ev: Event, shadow: ShadowEv) -> bool {
        match self.tx.try_send((id, ev)) {
            Ok(()) => {
                self.shadow.push_back(shadow);
                true
            }
            Err(_) => false,
        }
    }

    /// Send `Event::Connect` for a new link (production `LinkBuilder` path). Returns the link handle.
    pub fn begin_connect(
        &mut self,
        client_id: &str,
        clean: bool,
        will: Option<LastWill>,
        will_props: Option<LastWillProperties>,
        topic_alias_max: u16,
    ) -> Option<usize> {
        if self.tx.len() >= 990 {
            return None;
        }
        let pending = LinkBuilder::new(client_id, self.tx.clone())
            .clean_session(clean)
            .last_will(will)
            .last_will_properties(will_props)
            .topic_alias_max(topic_alias_max)
            .verif_begin()
            .ok()?;
        let link = self.links.len();
        self.links.push(LinkState {
            client_id: client_id.to_owned(),
            conn_id: None,
            tx: None,
            rx: None,
            pending: Some(pending),
            shadow_in: vec![],
            seen: 0,
            rx_closed: false,
            rejected: false,
        });
        self.shadow.push_back(ShadowEv::Connect(link));
        Some(link)
    }

    /// Collect answers to pending connects (call after router steps)
    pub fn poll_pendings(&mut self) -> Vec<ConnectOutcome> {
        let mut out = vec![];
        for (i, l) in self.links.iter_mut().enumerate() {
            let Some(p) = l.pending.as_ref() else { continue };
            match p.verif_state() {
                0 => {}
                1 => {
                    let p = l.pending.take().unwrap();
                    match p.finish() {
                        Ok((tx, rx, connack)) => {
                            l.conn_id = Some(rx.id());
                            l.tx = Some(tx);
                            l.rx = Some(rx);
                            l.seen = 0;
                            out.push(ConnectOutcome::Accepted {
                                link: i,
                                conn_id: l.conn_id.unwrap(),
                                connack,
                            });
                        }
                        Err(_) => {
                            l.rejected = true;
                            out.push(ConnectOutcome::Rejected { link: i });
                        }
                    }
                }
                _ => {
                    l.pending = None;
                    l.rejected = true;
                    out.push(ConnectOutcome::Rejected { link: i });
                }
            }
        }
        out
    }

    pub fn is_pending(&self, link: usize) -> bool {
        self.links[link].pending.is_some()
    }

    /// Put a packet into the link's incoming buffer (what `RemoteLink` does after a read)
    pub fn push(&mut self, link: usize, packet: Packet) -> bool {
        let l = &mut self.links[link];
        let Some(tx) = l.tx.as_ref() else { return false };
        tx.buffer().push_back(packet.clone());
        l.shadow_in.push(packet);
        true
    }

    /// `(id, Event::DeviceData)`
    pub fn notify(&mut self, link: usize) -> bool {
        let Some(id) = self.links[link].conn_id else { return false };
        self.send(id, Event::DeviceData, ShadowEv::DeviceData(link))
    }

    pub fn ready(&mut self, link: usize) -> bool {
        let Some(id) = self.links[link].conn_id else { return false };
        self.send(id, Event::Ready, ShadowEv::Ready(link))
    }

    pub fn disconnect_ev(&mut self, link: usize) -> bool {
        let Some(id) = self.links[link].conn_id else { return false };
        self.send(id, Event::Disconnect, ShadowEv::Disconnect(link))
    }

    pub fn will_ev(&mut self, client_id: &str) -> bool {
        self.send(
            0,
            Event::PublishWill((client_id.to_owned(), None)),
            ShadowEv::PublishWill(client_id.to_owned()),
        )
    }

    /// Arbitrary event for an arbitrary id (C03 alphabet)
    pub fn raw(&mut self, id: usize, ev: Event, kind: &str) -> bool {
        self.send(
            id,
            ev,
            ShadowEv::Raw {
                id,
                kind: kind.to_owned(),
            },
        )
    }

    /// The packets the router will see at this link's next `DeviceData`
    pub fn take_shadow_in(&mut self, link: usize) -> Vec<Packet> {
        std::mem::take(&mut self.links[link].shadow_in)
    }

    /// One router step. `panic` is set if the step panicked or the loop returned an error
    /// (the router is then discarded and never stepped again).
    pub fn step(&mut self, kind: Step) -> StepOut {
        let Some(router) = self.router.as_mut() else {
            return StepOut {
                handled: vec![],
                progressed: false,
                panic: self.panicked.clone(),
            };
        };
        let before = self.idle.events_handled.load(Ordering::SeqCst);
        self.steps += 1;
        // (a step that never returns is seen by the blocked-step supervisor, `crate::watch`)
        crate::watch::enter_step(match kind {
            Step::Turn => "Turn",
            Step::Event => "Event",
            Step::Consume => "Consume",
        });
        let r = guarded(|| match kind {
            Step::Turn => router.verif_turn().map_err(|e| e.to_string()),
            Step::Event => Ok(router.verif_event_step()),
            Step::Consume => Ok(router.verif_consume_step()),
        });
        crate::watch::leave_step();
        let after = self.idle.events_handled.load(Ordering::SeqCst);
        let mut handled = vec![];
        for _ in before..after {
            if let Some(ev) = self.shadow.pop_front() {
                handled.push(ev);
            }
        }
        match r {
            Ok(Ok(progressed)) => StepOut {
                handled,
                progressed,
                panic: None,
            },
            Ok(Err(e)) => {
                let p = PanicInfo {
                    location: "router-loop-error".into(),
                    message: e,
                };
                self.panicked = Some(p.clone());
                self.router = None;
                StepOut {
                    handled,
                    progressed: false,
                    panic: Some(p),
                }
            }
            Err(p) => {
                self.panicked = Some(p.clone());
                // never step a router again after a panic escaped it
                let dead = self.router.take();
                std::mem::forget(dead);
                StepOut {
                    handled,
                    progressed: false,
                    panic: Some(p),
                }
            }
        }
    }

    /// Notifications the router has appended to this link's outgoing buffer since the
    /// last call (observation at the router/link boundary, before the link collects them)
    pub fn peek_new(&mut self, link: usize) -> Vec<Notification> {
        let l = &mut self.links[link];
        let Some(rx) = l.rx.as_ref() else { return vec![] };
        let all = rx.verif_peek();
        if all.len() < l.seen {
            l.seen = 0;
        }
        let new = all[l.seen..].to_vec();
        l.seen = all.len();
        new
    }

    /// The link collects everything the router has handed over (token, then whole buffer –
    /// what `LinkRx::exchange` does). Returns the notifications and whether the router side is gone.
    pub fn drain(&mut self, link: usize) -> (Vec<Notification>, bool) {
        let l = &mut self.links[link];
        let Some(rx) = l.rx.as_mut() else {
            return (vec![], l.rx_closed);
        };
        let mut out = vec![];
        loop {
            match rx.recv_deadline(Instant::now()) {
                Ok(Some(n)) => out.push(n),
                Ok(None) => {}
                Err(rumqttd::local::LinkError::RecvTimeout(flume::RecvTimeoutError::Timeout)) => break,
                Err(_) => {
                    l.rx_closed = true;
                    break;
                }
            }
        }
        // whatever is still in the router-side buffer without a token stays there
        let left = rx.verif_peek().len();
        if left < l.seen {
            l.seen = left;
        }
        (out, l.rx_closed)
    }

    pub fn snapshot(&mut self) -> Option<RouterSnapshot> {
        let router = self.router.as_ref()?;
        guarded(|| router.verif_snapshot()).ok()
    }
}

/// Router configuration used by the S4 checks
pub fn router_config(max_connections: usize, max_outgoing: u64, seg_size: usize, seg_count: usize) -> RouterConfig {
    RouterConfig {
        max_connections,
        max_outgoing_packet_count: max_outgoing,
        max_segment_size: seg_size,
        max_segment_count: seg_count,
        custom_segment: None,
        initialized_filters: None,
        shared_subscriptions_strategy: Default::default(),
    }
}
