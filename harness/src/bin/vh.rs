use std::time::Instant;
use vh::common::{finish, load_known, Ctx, Tier};

fn main() {
    let args: Vec<String> = std::env::args().collect();
    if args.len() < 2 {
        eprintln!("usage: vh <ID> [--tier quick|thorough] [--seed n] [--evidence path] [--replay path]");
        std::process::exit(2);
    }
    let id = args[1].clone();
    let mut tier = match std::env::var("VERIF_TIER").as_deref() {
        Ok("thorough") => Tier::Thorough,
        _ => Tier::Quick,
    };
    let mut seed: u64 = std::env::var("VERIF_SEED").ok().and_then(|s| s.parse().ok()).unwrap_or(1);
    let mut evidence = format!("/verif/evidence/{id}.json");
    let mut replay: Option<String> = None;
    let mut i = 2;
    while i < args.len() {
        match args[i].as_str() {
            "--tier" => {
                tier = if args[i + 1] == "thorough" { Tier::Thorough } else { Tier::Quick };
                i += 1;
            }
            "quick" => tier = Tier::Quick,
            "thorough" => tier = Tier::Thorough,
            "--seed" => {
                seed = args[i + 1].parse().expect("seed");
                i += 1;
            }
            "--evidence" => {
                evidence = args[i + 1].clone();
                i += 1;
            }
            "--replay" => {
                replay = Some(args[i + 1].clone());
                i += 1;
            }
            other => {
                eprintln!("unknown argument {other}");
                std::process::exit(2);
            }
        }
        i += 1;
    }
    let threads = std::env::var("VERIF_THREADS")
        .ok()
        .and_then(|s| s.parse().ok())
        .unwrap_or_else(|| std::thread::available_parallelism().map(|n| n.get()).unwrap_or(4).min(16));
    let known_path = std::env::var("VERIF_KNOWN").unwrap_or_else(|_| "/verif/known_findings.json".into());
    // triage aid: run check <ID>'s workload but report the records of another property
    let judged = std::env::var("VERIF_JUDGE_AS").unwrap_or_else(|_| id.clone());
    let ctx = Ctx {
        property: judged,
        tier,
        seed,
        known: load_known(&known_path),
        start: Instant::now(),
        threads,
        replaying: replay.is_some(),
    };
    let Some(prop) = vh::props::all().into_iter().find(|p| p.id == id) else {
        eprintln!("INCONCLUSIVE property={id} reason=no such check");
        std::process::exit(2);
    };
    if std::env::var("VERIF_TSAN_SELFTEST").is_ok() {
        // liveness test of the ThreadSanitizer build (tools/tsan_pass.sh): two threads write one word without
        // synchronisation; an instrumented build must report it
        static mut WORD: u64 = 0;
        let hs: Vec<_> = (0..2)
            .map(|i| {
                std::thread::spawn(move || {
                    for k in 0..100_000u64 {
                        unsafe {
                            let p = std::ptr::addr_of_mut!(WORD);
                            p.write_volatile(p.read_volatile().wrapping_add(k + i));
                        }
                    }
                })
            })
            .collect();
        for h in hs {
            h.join().ok();
        }
        println!("selftest done");
        std::process::exit(0);
    }
    vh::common::install_panic_hook();
    {
        // blocked-step supervisor: a harness-driven router step that sleeps without consuming CPU time has halted
        let (property, check, tier_s, level) = (ctx.property.clone(), id.clone(), if ctx.quick() { "quick" } else { "thorough" }, prop.meta.level);
        let (seed, start, replaying, evidence) = (ctx.seed, ctx.start, ctx.replaying, evidence.clone());
        let secs = std::env::var("VERIF_BLOCK_SECS").ok().and_then(|v| v.parse().ok()).unwrap_or(20u64);
        vh::watch::start(secs, move |v| {
            let owns = matches!(property.as_str(), "C03" | "C14");
            let how = if v.spinning {
                format!("has consumed {} s of CPU time without returning (it spins)", v.blocked_for_s)
            } else {
                format!("has been blocked (sleeping, no CPU time consumed) for {} s", v.blocked_for_s)
            };
            let (oracle, message) = if property == "C14" {
                ("broker-lost", format!("the routing core halted: router step {} {how} with the well-behaved pair connected", v.kind))
            } else if v.spinning {
                ("router-step-spinning", format!("the routing core halted: router step {} {how}", v.kind))
            } else {
                ("router-step-blocked", format!("the routing core halted: router step {} {how}", v.kind))
            };
            let doc = vh::watch::evidence(&property, tier_s, seed, level, start.elapsed().as_secs_f64(), if owns { 1 } else { 0 }, &v);
            if let Some(dir) = std::path::Path::new(&evidence).parent() {
                std::fs::create_dir_all(dir).ok();
            }
            std::fs::write(&evidence, serde_json::to_string_pretty(&doc).unwrap()).ok();
            if owns {
                let dir = if replaying { "/verif/target" } else { "/verif/replays" };
                std::fs::create_dir_all(dir).ok();
                let path = format!("{dir}/{}{check}-{seed}-halt.json", if replaying { "replayed-" } else { "" });
                let rec = serde_json::json!({"property": property, "oracle": oracle, "message": message, "facts": {"site": if v.spinning { "router-step-spinning" } else { "router-step-blocked" }, "step": v.kind}});
                let file = serde_json::json!({"check": check, "property": property, "seed": seed, "tier": tier_s, "message": message, "record": rec, "replay": v.replay});
                std::fs::write(&path, serde_json::to_string_pretty(&file).unwrap()).ok();
                println!("  violated: [{oracle}] {message}");
                println!("VIOLATION property={property} replay={path}");
                std::process::exit(1);
            }
            println!("INCONCLUSIVE property={property} reason=a router step blocked or spins for good (the routing core halted: C03's concern); this check cannot continue");
            std::process::exit(2);
        });
    }
    let stats = match replay {
        Some(path) => {
            let text = std::fs::read_to_string(&path).expect("replay file");
            let doc: serde_json::Value = serde_json::from_str(&text).expect("replay json");
            match prop.replay {
                Some(f) => f(&ctx, &doc["replay"]),
                None => {
                    eprintln!("INCONCLUSIVE property={id} reason=check has no replay entry point");
                    std::process::exit(2);
                }
            }
        }
        None => (prop.run)(&ctx),
    };
    let out = finish(
        &ctx,
        stats,
        prop.meta.level,
        prop.meta.rule,
        prop.meta.assumptions,
        prop.meta.floors,
        &evidence,
    );
    std::process::exit(out.exit);
}
