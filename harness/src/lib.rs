//! Runtime-monitoring harness for bytebeamio/rumqtt (see /verif/DESIGN.md)
pub mod common;
pub mod watch;
pub mod gen;
pub mod model;
pub mod props;
pub mod sub;
