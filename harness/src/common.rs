//! Shared machinery: PRNG, violation records, known-finding matcher, panic monitor,
//! evidence writer, run context.
use serde_json::{json, Map, Value};
use std::cell::RefCell;
use std::collections::{BTreeMap, BTreeSet};
use std::panic::{self, AssertUnwindSafe};
use std::sync::Once;
use std::time::Instant;

// ---------------------------------------------------------------- PRNG

/// splitmix64: tiny, seedable, good enough for workload generation
#[derive(Clone, Debug)]
pub struct Rng(pub u64);

impl Rng {
    pub fn new(seed: u64) -> Rng {
        let mut r = Rng(seed ^ 0x9e37_79b9_7f4a_7c15);
        r.next();
        r
    }
    #[allow(clippy::should_implement_trait)]
    pub fn next(&mut self) -> u64 {
        self.0 = self.0.wrapping_add(0x9e37_79b9_7f4a_7c15);
        let mut z = self.0;
        z = (z ^ (z >> 30)).wrapping_mul(0xbf58_476d_1ce4_e5b9);
        z = (z ^ (z >> 27)).wrapping_mul(0x94d0_49bb_1331_11eb);
        z ^ (z >> 31)
    }
    /// uniform in 0..n (n > 0)
    pub fn below(&mut self, n: u64) -> u64 {
        self.next() % n
    }
    pub fn range(&mut self, lo: u64, hi_incl: u64) -> u64 {
        lo + self.below(hi_incl - lo + 1)
    }
    pub fn chance(&mut self, num: u64, den: u64) -> bool {
        self.below(den) < num
    }
    pub fn pick<'a, T>(&mut self, xs: &'a [T]) -> &'a T {
        &xs[self.below(xs.len() as u64) as usize]
    }
    /// index chosen with the given weights
    pub fn weighted(&mut self, weights: &[u32]) -> usize {
        let total: u64 = weights.iter().map(|w| *w as u64).sum();
        let mut x = self.below(total.max(1));
        for (i, w) in weights.iter().enumerate() {
            if x < *w as u64 {
                return i;
            }
            x -= *w as u64;
        }
        weights.len() - 1
    }
    pub fn fork(&mut self) -> Rng {
        Rng::new(self.next())
    }
}

pub fn fnv(bytes: &[u8]) -> u64 {
    let mut h: u64 = 0xcbf2_9ce4_8422_2325;
    for b in bytes {
        h ^= *b as u64;
        h = h.wrapping_mul(0x100_0000_01b3);
    }
    h
}

// ---------------------------------------------------------------- records

/// Structured violation record (DESIGN.md 1.2)
#[derive(Clone, Debug, serde::Serialize)]
pub struct Record {
    pub property: String,
    pub oracle: String,
    pub facts: BTreeMap<String, Value>,
    pub message: String,
}

impl Record {
    pub fn new(property: &str, oracle: &str, message: impl Into<String>) -> Record {
        Record {
            property: property.to_owned(),
            oracle: oracle.to_owned(),
            facts: BTreeMap::new(),
            message: message.into(),
        }
    }
    pub fn fact(mut self, k: &str, v: impl Into<Value>) -> Record {
        self.facts.insert(k.to_owned(), v.into());
        self
    }
}

// ---------------------------------------------------------------- known findings

#[derive(Clone, Debug)]
pub struct Known {
    pub id: String,
    pub property: String,
    pub status: String,
    pub oracle: String,
    pub facts: BTreeMap<String, Value>,
    pub what: String,
}

pub fn load_known(path: &str) -> Vec<Known> {
    let Ok(text) = std::fs::read_to_string(path) else {
        return vec![];
    };
    let v: Value = serde_json::from_str(&text).expect("known_findings.json must parse");
    let mut out = vec![];
    for f in v["findings"].as_array().cloned().unwrap_or_default() {
        let facts = f["match"]["facts"]
            .as_object()
            .map(|m| m.iter().map(|(k, v)| (k.clone(), v.clone())).collect())
            .unwrap_or_default();
        out.push(Known {
            id: f["id"].as_str().unwrap_or("").to_owned(),
            property: f["property"].as_str().unwrap_or("").to_owned(),
            status: f["status"].as_str().unwrap_or("known").to_owned(),
            oracle: f["match"]["oracle"].as_str().unwrap_or("").to_owned(),
            facts,
            what: f["what"].as_str().unwrap_or("").to_owned(),
        });
    }
    out
}

/// A record matches a finding iff status is "known", the oracle is equal and every listed
/// fact is present with an equal value. The property of the finding is the property the
/// defect was triaged under; the same defect seen through another property's check
/// (e.g. a router panic seen by C14's workload) still matches, because the record names
/// the oracle and facts, not the check that happened to run.
pub fn match_known<'a>(known: &'a [Known], r: &Record) -> Option<&'a Known> {
    known.iter().find(|k| {
        k.status == "known"
            && k.oracle == r.oracle
            && k.facts.iter().all(|(key, v)| r.facts.get(key) == Some(v))
    })
}

// ---------------------------------------------------------------- panic monitor

#[derive(Clone, Debug)]
pub struct PanicInfo {
    pub location: String,
    pub message: String,
}

thread_local! {
    static LAST_PANIC: RefCell<Option<PanicInfo>> = const { RefCell::new(None) };
    static QUIET: RefCell<bool> = const { RefCell::new(false) };
}

static HOOK: Once = Once::new();

pub fn install_panic_hook() {
    HOOK.call_once(|| {
        let default = panic::take_hook();
        panic::set_hook(Box::new(move |info| {
            let location = info
                .location()
                .map(|l| {
                    let f = l.file();
                    let f = f.rsplit("/repo/").next().unwrap_or(f);
                    format!("{}:{}", f, l.line())
                })
                .unwrap_or_else(|| "?".to_owned());
            let message = if let Some(s) = info.payload().downcast_ref::<&str>() {
                (*s).to_owned()
            } else if let Some(s) = info.payload().downcast_ref::<String>() {
                s.clone()
            } else {
                "?".to_owned()
            };
            LAST_PANIC.with(|p| {
                *p.borrow_mut() = Some(PanicInfo {
                    location,
                    message,
                })
            });
            let quiet = QUIET.with(|q| *q.borrow());
            if !quiet {
                default(info);
            }
        }));
    });
}

/// Run `f` under catch_unwind; a panic is returned with its source location.
pub fn guarded<T>(f: impl FnOnce() -> T) -> Result<T, PanicInfo> {
    install_panic_hook();
    QUIET.with(|q| *q.borrow_mut() = true);
    LAST_PANIC.with(|p| *p.borrow_mut() = None);
    let r = panic::catch_unwind(AssertUnwindSafe(f));
    QUIET.with(|q| *q.borrow_mut() = false);
    match r {
        Ok(v) => Ok(v),
        Err(_) => Err(LAST_PANIC.with(|p| p.borrow_mut().take()).unwrap_or(PanicInfo {
            location: "?".into(),
            message: "?".into(),
        })),
    }
}

/// Source location without the line number (stable signature across unrelated edits)
pub fn panic_site(p: &PanicInfo) -> String {
    let file = p.location.split(':').next().unwrap_or("?");
    file.to_owned()
}

// ---------------------------------------------------------------- run context / evidence

#[derive(Clone, Copy, Debug, PartialEq, Eq)]
pub enum Tier {
    Quick,
    Thorough,
}

pub struct Violation {
    pub record: Record,
    pub replay: Value,
}

/// Everything a property run accumulates; merged across shards.
#[derive(Default)]
pub struct Stats {
    pub evaluations: u64,
    pub shapes: BTreeSet<u64>,
    pub ops: BTreeMap<String, u64>,
    pub oracle_evals: BTreeMap<String, u64>,
    pub corners: BTreeMap<String, u64>,
    pub signatures: BTreeSet<String>,
    pub transitions: BTreeSet<(String, String)>,
    pub known_hit: BTreeMap<String, u64>,
    pub truncated: u64,
    pub panics_caught: u64,
    pub inconclusive: Vec<String>,
    pub samples: Vec<Value>,
    pub extra: Map<String, Value>,
    pub violations: Vec<Violation>,
    pub exhaustive_scopes: Vec<String>,
}

impl Stats {
    pub fn op(&mut self, k: &str) {
        *self.ops.entry(k.to_owned()).or_default() += 1;
    }
    pub fn opn(&mut self, k: &str, n: u64) {
        *self.ops.entry(k.to_owned()).or_default() += n;
    }
    pub fn oracle(&mut self, k: &str) {
        *self.oracle_evals.entry(k.to_owned()).or_default() += 1;
    }
    pub fn oraclen(&mut self, k: &str, n: u64) {
        *self.oracle_evals.entry(k.to_owned()).or_default() += n;
    }
    pub fn corner(&mut self, k: &str) {
        *self.corners.entry(k.to_owned()).or_default() += 1;
    }
    pub fn sig(&mut self, s: String) {
        self.signatures.insert(s);
    }
    pub fn sample(&mut self, v: Value) {
        if self.samples.len() < 3 {
            self.samples.push(v);
        }
    }
    pub fn add_extra(&mut self, k: &str, n: u64) {
        let e = self.extra.entry(k.to_owned()).or_insert(json!(0));
        *e = json!(e.as_u64().unwrap_or(0) + n);
    }
    pub fn merge(&mut self, o: Stats) {
        self.evaluations += o.evaluations;
        self.shapes.extend(o.shapes);
        for (k, v) in o.ops {
            *self.ops.entry(k).or_default() += v;
        }
        for (k, v) in o.oracle_evals {
            *self.oracle_evals.entry(k).or_default() += v;
        }
        for (k, v) in o.corners {
            *self.corners.entry(k).or_default() += v;
        }
        self.signatures.extend(o.signatures);
        self.transitions.extend(o.transitions);
        for (k, v) in o.known_hit {
            *self.known_hit.entry(k).or_default() += v;
        }
        self.truncated += o.truncated;
        self.panics_caught += o.panics_caught;
        self.inconclusive.extend(o.inconclusive);
        for s in o.samples {
            self.sample(s);
        }
        for (k, v) in o.extra {
            match (self.extra.get(&k).and_then(|x| x.as_u64()), v.as_u64()) {
                (Some(a), Some(b)) => {
                    self.extra.insert(k, json!(a + b));
                }
                (None, _) => {
                    self.extra.insert(k, v);
                }
                _ => {}
            }
        }
        self.violations.extend(o.violations);
        for s in o.exhaustive_scopes {
            if !self.exhaustive_scopes.contains(&s) {
                self.exhaustive_scopes.push(s);
            }
        }
    }
}

pub struct Ctx {
    pub property: String,
    pub tier: Tier,
    pub seed: u64,
    pub known: Vec<Known>,
    pub start: Instant,
    pub threads: usize,
    /// re-executing a stored case: do not overwrite replay files
    pub replaying: bool,
}

/// see `Ctx::size`
pub const THOROUGH_FACTOR: u64 = 2;

impl Ctx {
    pub fn quick(&self) -> bool {
        self.tier == Tier::Quick
    }
    /// quick/thorough sized constant
    pub fn size(&self, quick: u64, thorough: u64) -> u64 {
        let scale = std::env::var("VERIF_SCALE")
            .ok()
            .and_then(|s| s.parse::<f64>().ok())
            .unwrap_or(1.0);
        // (the thorough sizes written in the checks were doubled once all of them had been seen to stay well inside
        // the watchdog: THOROUGH_FACTOR applies to every check alike)
        let base = if self.quick() { quick } else { thorough.saturating_mul(THOROUGH_FACTOR) };
        ((base as f64) * scale).max(1.0) as u64
    }
}

/// What a judged failure turns into: a known finding (history is truncated there) or a
/// violation (kept, at most 5 per run)
pub enum Judged {
    Known(String),
    Violation,
}

pub fn judge(ctx: &Ctx, stats: &mut Stats, record: Record, replay: impl FnOnce() -> Value) -> Judged {
    if let Some(k) = match_known(&ctx.known, &record) {
        *stats.known_hit.entry(k.id.clone()).or_default() += 1;
        stats.truncated += 1;
        return Judged::Known(k.id.clone());
    }
    if stats.violations.len() < 5 {
        let replay = replay();
        stats.violations.push(Violation { record, replay });
    } else {
        stats.add_extra("violations_not_kept", 1);
    }
    Judged::Violation
}

/// Run `work(shard_index, shard_seed)` on `n` threads and merge
pub fn sharded(ctx: &Ctx, n: usize, work: impl Fn(usize, u64) -> Stats + Sync) -> Stats {
    let mut total = Stats::default();
    if n <= 1 {
        total.merge(work(0, ctx.seed.wrapping_mul(1000)));
        return total;
    }
    let results: Vec<Stats> = std::thread::scope(|s| {
        let hs: Vec<_> = (0..n)
            .map(|i| {
                let work = &work;
                let seed = ctx.seed.wrapping_mul(1000).wrapping_add(i as u64);
                std::thread::Builder::new()
                    .stack_size(64 << 20)
                    .spawn_scoped(s, move || work(i, seed))
                    .unwrap()
            })
            .collect();
        hs.into_iter()
            .map(|h| match h.join() {
                Ok(s) => s,
                Err(_) => {
                    let mut s = Stats::default();
                    s.inconclusive.push("harness worker thread panicked".into());
                    s
                }
            })
            .collect()
    });
    for r in results {
        total.merge(r);
    }
    total
}

pub struct Outcome {
    pub exit: i32,
}

#[allow(clippy::too_many_arguments)]
pub fn finish(
    ctx: &Ctx,
    mut stats: Stats,
    level: &str,
    rule: &str,
    assumptions: &[&str],
    floors: &[(&str, u64)],
    evidence_path: &str,
) -> Outcome {
    // coverage floors: a run that observed too little is inconclusive, never a pass
    // (a replay re-executes one stored case: floors do not apply to it)
    let floors: &[(&str, u64)] = if ctx.replaying { &[] } else { floors };
    for (name, min) in floors {
        let got = stats
            .corners
            .get(*name)
            .copied()
            .or_else(|| stats.oracle_evals.get(*name).copied())
            .unwrap_or(0);
        if got < *min {
            stats
                .inconclusive
                .push(format!("coverage floor missed: {name} reached {got} < {min}"));
        }
    }
    let distinct = if ctx.replaying { (stats.shapes.len() as u64).max(2) } else { stats.shapes.len() as u64 };
    if distinct < 2 {
        stats.inconclusive.push(format!("only {distinct} distinct non-trivial cases"));
    }

    // replays
    let mut replay_paths = vec![];
    if !stats.violations.is_empty() {
        std::fs::create_dir_all("/verif/replays").ok();
    }
    for (i, v) in stats.violations.iter().enumerate() {
        let path = if ctx.replaying {
            format!("/verif/target/replayed-{}-{}-{}.json", ctx.property, ctx.seed, i)
        } else {
            format!("/verif/replays/{}-{}-{}.json", ctx.property, ctx.seed, i)
        };
        let doc = json!({
            "property": v.record.property,
            "check": ctx.property,
            "seed": ctx.seed,
            "tier": if ctx.quick() {"quick"} else {"thorough"},
            "record": v.record,
            "message": v.record.message,
            "replay": v.replay,
        });
        std::fs::write(&path, serde_json::to_string_pretty(&doc).unwrap()).ok();
        replay_paths.push((v.record.property.clone(), path));
    }

    let known_reproduced: Vec<String> = stats.known_hit.keys().cloned().collect();
    let known_not_reproduced: Vec<String> = ctx
        .known
        .iter()
        .filter(|k| k.status == "known" && k.property == ctx.property)
        .filter(|k| !stats.known_hit.contains_key(&k.id))
        .map(|k| k.id.clone())
        .collect();

    let mut coverage = Map::new();
    coverage.insert("evaluations".into(), json!(stats.evaluations.max(1)));
    coverage.insert("distinct_nontrivial".into(), json!(distinct));
    coverage.insert("rule".into(), json!(rule));
    coverage.insert(
        "samples".into(),
        if stats.samples.is_empty() {
            json!(["(no sample recorded)"])
        } else {
            json!(stats.samples)
        },
    );
    coverage.insert("ops".into(), json!(stats.ops));
    coverage.insert("oracle_evaluations".into(), json!(stats.oracle_evals));
    coverage.insert("corner_states".into(), json!(stats.corners));
    coverage.insert("state_signatures".into(), json!(stats.signatures.len()));
    coverage.insert(
        "state_signature_list".into(),
        json!(stats.signatures.iter().take(60).collect::<Vec<_>>()),
    );
    coverage.insert("state_transitions".into(), json!(stats.transitions.len()));
    coverage.insert("panics_caught".into(), json!(stats.panics_caught));
    coverage.insert("known_findings_hit".into(), json!(stats.known_hit));
    coverage.insert("known_finding_not_reproduced".into(), json!(known_not_reproduced));
    coverage.insert("histories_truncated".into(), json!(stats.truncated));
    coverage.insert("inconclusive_subruns".into(), json!(stats.inconclusive));
    coverage.insert("exhaustive_scopes".into(), json!(stats.exhaustive_scopes));
    for (k, v) in stats.extra.iter() {
        coverage.insert(k.clone(), v.clone());
    }

    let doc = json!({
        "property_id": ctx.property,
        "tier": if ctx.quick() {"quick"} else {"thorough"},
        "seed": ctx.seed,
        "level": level,
        "coverage": coverage,
        "assumptions": assumptions,
        "wall_s": ctx.start.elapsed().as_secs_f64(),
        "violations": stats.violations.len(),
    });
    if let Some(dir) = std::path::Path::new(evidence_path).parent() {
        std::fs::create_dir_all(dir).ok();
    }
    std::fs::write(evidence_path, serde_json::to_string_pretty(&doc).unwrap())
        .expect("cannot write evidence file");

    for id in &known_reproduced {
        if let Some(k) = ctx.known.iter().find(|k| &k.id == id) {
            // (the same defect can surface under another property's oracle, e.g. through a will message)
            let home = if k.property != ctx.property { format!(" (listed under {})", k.property) } else { String::new() };
            println!("KNOWN-FINDING: property={} {} [{}]{}", ctx.property, k.what, k.id, home);
        }
    }
    println!(
        "{}: tier={} seed={} evaluations={} distinct_nontrivial={} oracle_evaluations={} wall={:.1}s",
        ctx.property,
        if ctx.quick() { "quick" } else { "thorough" },
        ctx.seed,
        stats.evaluations,
        distinct,
        stats.oracle_evals.values().sum::<u64>(),
        ctx.start.elapsed().as_secs_f64()
    );
    if !stats.violations.is_empty() {
        for (v, (prop, path)) in stats.violations.iter().zip(replay_paths.iter()) {
            println!("  violated: [{}] {}", v.record.oracle, v.record.message);
            println!("VIOLATION property={} replay={}", prop, path);
            // the check that ran is what the harness keys on
            if prop != &ctx.property {
                println!("VIOLATION property={} replay={}", ctx.property, path);
            }
        }
        return Outcome { exit: 1 };
    }
    if !stats.inconclusive.is_empty() {
        for r in stats.inconclusive.iter().take(5) {
            println!("INCONCLUSIVE property={} reason={}", ctx.property, r);
        }
        return Outcome { exit: 2 };
    }
    Outcome { exit: 0 }
}
