#!/usr/bin/env python3
"""Writes /verif/SEEDED.md: which checks catch which seeded changes (from seeded/*/meta.json)."""
import json, glob, os, re
rows=[]
for d in sorted(glob.glob('/verif/seeded/*/meta.json')):
    m=json.load(open(d))
    det=m.get('detection',[])
    caught={}
    for line in det:
        mm=re.match(r'\[(C\d+) seed (\d+)\]\s+(.*)', line)
        if mm:
            chk,seed,rest=mm.groups()
            caught.setdefault(chk,{'hit':0,'silent':0,'oracles':set()})
            if 'silent' in rest: caught[chk]['silent']+=1
            else:
                caught[chk]['hit']+=1
                o=re.search(r'violated: \[([^\]]+)\]', rest)
                if o: caught[chk]['oracles'].add(o.group(1))
    summary=[]
    for chk,v in sorted(caught.items()):
        if v['hit']: summary.append(f"**{chk}** {v['hit']}/{v['hit']+v['silent']} seeds ({', '.join(sorted(v['oracles']))})")
        else: summary.append(f"{chk} silent")
    rows.append((m['property'],m['name'],m.get('needs_to_manifest',''),'; '.join(summary) or m.get('note','(see meta.json)')))
out=["# Seeded changes and the checks that catch them","",
"Each change was written by an independent sub-agent that saw only the property text and a scratch worktree (nothing from /verif). "
"I confirmed for each: it compiles, the existing test suite of the crate passes with it, its demonstration fails with it and passes without it "
"(`meta.json: confirmed_by_me`), then ran the quick tier of the relevant checks at seeds 1..3 against a scratch copy with the change applied "
"(`meta.json: detection`). Apply with `git -C /repo apply seeded/<id>/patch.diff`, undo with `git -C /repo checkout -- .`.","",
"| property | change | needs, to manifest | quick tier at seeds 1..3 (check: seeds that fired, oracle) |","|---|---|---|---|"]
for r in rows: out.append("| "+" | ".join(x.replace('|','\\|') for x in r)+" |")
open('/verif/SEEDED.md','w').write('\n'.join(out)+'\n')
print(len(rows),"rows")
