#!/usr/bin/env python3
"""Makes sure every 'fix:' commit of /repo is recorded in known_findings.json as a status=fixed entry
(fixed entries suppress nothing; they document the repaired defects)."""
import json, subprocess
p='/verif/known_findings.json'
d=json.load(open(p))
log=subprocess.run(['git','-C','/repo','log','--format=%h\t%s'],capture_output=True,text=True).stdout.splitlines()
fixes=[l.split('\t',1) for l in log if '\tfix:' in l]
recorded=' '.join(str(f.get('commit','')) for f in d['findings'])
PROP={  # property each repair was triaged under
 'ready queue stalled':'C06',
 'released a parked publish over':'C02',
 'handed out again while its QoS 2':'C07',
 'topic alias of a QoS 2 publish':'C14',
}
added=0
for sha,subj in fixes:
    if sha in recorded: continue
    prop=next((v for k,v in PROP.items() if k in subj),'C00')
    what=subj[len('fix: '):]
    d['findings'].append({"id":"FX-"+sha,"property":prop,"status":"fixed","commit":sha,"match":{"oracle":"-","facts":{}},"what":what,
                          "line":f"fixed: property={prop} {sha} {what}"})
    added+=1
json.dump(d,open(p,'w'),indent=1)
print("fix commits:",len(fixes),"newly recorded:",added)
print("unassigned:",[f['id'] for f in d['findings'] if f['property']=='C00'])
