#!/bin/bash
# Supplementary Miri pass (undefined-behaviour / data-race interpreter) over the pure-call workloads (substrate S1:
# commit log C13, topic matching C12, codecs C04, decoders C05). It decides no property (DESIGN 2.8 / D.19 / D.39):
# neither crate has `unsafe`; what Miri watches here is the dependencies' unsafe code (bytes, fixedbitset, slab, ...) as
# driven by the real workloads. Scaled down (Miri is ~4 orders of magnitude slower), so the checks' coverage floors are
# not met and their own verdict is "inconclusive"; only Miri's reports count here.
#   usage: tools/miri_pass.sh [scale]       result: /verif/notes/miri_pass.txt   (build ~4 min, run ~3-10 min per check)
set -u
SCALE=${1:-0.002}
export CARGO_NET_OFFLINE=true
T=/verif/target/miri
cd /verif/harness || exit 2
OUT=/verif/notes/miri_pass.txt
{
echo "Miri pass $(date -u +%Y-%m-%dT%H:%MZ), repo $(git -C /repo rev-parse --short HEAD), harness $(git -C /verif rev-parse --short HEAD), VERIF_SCALE=$SCALE, one thread"
for P in C13 C12 C04 C05; do
  LOG=$T-$P.log
  MIRIFLAGS="-Zmiri-disable-isolation -Zmiri-env-forward=VERIF_SCALE -Zmiri-env-forward=VERIF_THREADS" VERIF_SCALE=$SCALE VERIF_THREADS=1 CARGO_TARGET_DIR=$T \
    timeout ${MIRI_LIMIT:-1200} cargo +nightly miri run --bin vh -- $P --seed ${VERIF_SEED:-1} --evidence $T/evidence_$P.json >$LOG 2>&1
  RC=$?
  UB=$(grep -c "error: Undefined Behavior\|error: unsupported operation\|Data race detected" $LOG)
  LINE=$(grep -E "^$P: tier=" $LOG | tail -1)
  VIOL=$(grep -c "^VIOLATION" $LOG)
  if [ $RC -eq 124 ]; then LINE="interrupted by the time limit (${MIRI_LIMIT:-1200} s): part of the workload was interpreted (its fixed enumerations are not scaled)"; fi
  echo "$P: Miri reports=$UB oracle-violations=$VIOL | ${LINE:-no summary line (see $LOG)}"
done
} | tee $OUT
grep -q "reports=[1-9]" $OUT && exit 1
exit 0
