#!/bin/bash
# usage: [SRCID=C07b] keep_seed.sh <PROP> <name> <needs...>   (reads /tmp/mut/<SRCID or PROP>-out, /tmp/scr/confirm.log, /tmp/scr/detect_<PROP>_<name>.txt)
PROP=$1; NAME=$2; shift 2
SRCID=${SRCID:-$PROP}
SRC=/tmp/mut/$SRCID-out; DST=/verif/seeded/$PROP-$NAME
mkdir -p $DST
cp $SRC/$NAME.diff $DST/patch.diff
cp $SRC/${NAME}_demo.diff $DST/demo.diff
cp $SRC/$NAME.md $DST/description.md
CONF=$(grep "^$SRCID/$NAME:" /tmp/scr/confirm.log | tail -1)
DET=$(cat /tmp/scr/detect_${PROP}_${NAME}.txt 2>/dev/null)
python3 - "$PROP" "$NAME" "$CONF" "$DET" "$*" <<'PY'
import json,sys
prop,name,conf,det,needs=sys.argv[1:6]
meta={"property":prop,"name":name,
 "breaks":"see description.md (written by the independent sub-agent that produced the change)",
 "needs_to_manifest":needs,
 "confirmed_by_me":conf,
 "what_i_ran":["/tmp/scr/confirm.sh: git apply patch.diff in a scratch worktree; cargo test -p rumqttd --offline (existing suite); git apply demo.diff; demo test with and without the change",
               "/tmp/scr/mtest.sh: scratch harness built against the scratch worktree with the change applied; ./vh <check> quick at seeds 1..3"],
 "detection":det.splitlines()}
json.dump(meta,open(f"/verif/seeded/{prop}-{name}/meta.json","w"),indent=1)
PY
echo kept $DST
