#!/bin/bash
# Supplementary ThreadSanitizer pass over the OS-thread substrate (S5: real Router::spawn() thread + client threads sharing
# the link buffers), the sharded S4 drivers and the full-stack substrate (S6: router thread + connection tasks on a
# multi-thread runtime). It decides no property (DESIGN 2.8 / D.27): the behavioural oracles of the
# checks run as usual, ThreadSanitizer additionally watches every memory access of the instrumented build (std included,
# -Zbuild-std) for data races. Not a MANIFEST command: the instrumented build takes 5-25 minutes.
#   usage: tools/tsan_pass.sh [rounds-per-check]      result: /verif/notes/tsan_pass.txt
set -u
ROUNDS=${1:-20}
export CARGO_NET_OFFLINE=true
T=/verif/target/tsan
cd /verif/harness || exit 2
RUSTFLAGS="-Zsanitizer=thread" CARGO_TARGET_DIR=$T cargo +nightly build --release -Zbuild-std --target x86_64-unknown-linux-gnu >$T-build.log 2>&1 \
  || { echo "INCONCLUSIVE: instrumented build failed (see $T-build.log)"; exit 2; }
BIN=$T/x86_64-unknown-linux-gnu/release/vh
OUT=/verif/notes/tsan_pass.txt
# the instrumented build must be able to see a race at all: a deliberate one in the harness binary
rm -f $T/report_selftest.*
VERIF_TSAN_SELFTEST=1 TSAN_OPTIONS="halt_on_error=0 log_path=$T/report_selftest exitcode=0" $BIN C01 >/dev/null 2>&1
SELF=$(cat $T/report_selftest.* 2>/dev/null | grep -c "WARNING: ThreadSanitizer: data race")
if [ "$SELF" -lt 1 ]; then echo "INCONCLUSIVE: the instrumented build does not report a deliberate data race"; exit 2; fi
{
echo "self-test: a deliberate unsynchronised write from two threads is reported by this build ($SELF report(s))"
echo "ThreadSanitizer pass $(date -u +%Y-%m-%dT%H:%MZ), repo $(git -C /repo rev-parse --short HEAD), harness $(git -C /verif rev-parse --short HEAD), $ROUNDS S5 rounds per check"
# S5 (OS threads) checks, then the S6 (full stack: router thread + multi-thread tokio runtime) checks
for P in C01 C06 C14 C17 C09 C16 C19 C20; do
  rm -f $T/report_$P.*
  LINE=$(TSAN_OPTIONS="halt_on_error=0 log_path=$T/report_$P exitcode=0" VERIF_S5_ROUNDS=$ROUNDS timeout 3600 $BIN $P --seed ${VERIF_SEED:-1} --evidence $T/evidence_$P.json 2>&1 | grep -E "^$P:|VIOLATION|INCONCL" | tr '\n' ' ')
  N=$(cat $T/report_$P.* 2>/dev/null | grep -c "WARNING: ThreadSanitizer")
  S5=$(python3 -c "import json;print(json.load(open('$T/evidence_$P.json'))['coverage']['corner_states'].get('s5-round',0))" 2>/dev/null)
  echo "$P: ThreadSanitizer reports=$N s5_rounds=$S5 | $LINE"
done
} | tee $OUT
grep -q "reports=[1-9]" $OUT && exit 1
exit 0
