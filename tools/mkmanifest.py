#!/usr/bin/env python3
"""Generates /verif/MANIFEST.json from the table below (keeps it valid at all times)."""
import json, subprocess
S4_NOTE = ("Trusted base: the harness's M-broker reference model (written from the statements and MQTT rules), the guarded hooks "
           "(verif-hooks: router stepping, snapshot, link peek; they do not change what the router computes), single-threaded stepping of the "
           "real Router (every schedule of the production system is a sequence of events()/consume() steps interleaved with link actions, "
           "which is what the harness drives). Held on the histories counted in the "
           "evidence file, not proved. Known genuine defects are listed in /verif/known_findings.json and their triggers are confined to ~15% "
           "of the histories.")
S1_NOTE = ("Trusted base: the harness's own reference encoder / fixed-header parser / models (written from the MQTT specifications). "
           "Every call into the code under test runs under catch_unwind with overflow checks on. Held on the inputs counted in the evidence file.")
S5_ADD = (" In addition the check runs rounds of the threaded substrate S5 (real Router::spawn() thread with the production run loop, 9-12 client threads on real links, "
          "random yields/sleeps) judged by an offline checker over the recorded client-boundary histories at a logical quiescent point (router blocked or completing turns "
          "without output, every event handled, every client polled twice without activity); S5 schedules are not replayable.")
checks = {
 "C01": dict(level="exploration", ref="3 C01, Appendix A", tech="runtime monitoring: seeded hostile histories against the real router (stepped through hooks) judged online by a sequential reference broker (exact per-subscription streams, unique message ids); plus threaded rounds with an offline history checker", note=S4_NOTE + S5_ADD,
             text="Every Forward the real router hands to a link is checked against the expected stream of exactly one subscription (accepted, matching, in acceptance order, once, granted QoS, topic/payload intact); at logical quiescent points (all clients drained and acked, router idle) every stream must be complete. Exploration over seeded histories, stepping modes and batch configurations; the right level for a property quantified over all histories and schedules when the deciding step must observe executions."),
 "C03": dict(level="exploration", ref="3 C03, D.14, D.27", tech="runtime monitoring: hostile event/packet fuzzing of the real router under catch_unwind + overflow checks, router-state invariants from a snapshot hook, service probe at quiescence, blocked-step supervisor (a driven router step sleeping without CPU time = halt) with directed never-collecting-client / alias-limit scenarios", note=S4_NOTE,
             text="Every router step (events()/consume()) of hostile histories (protocol violations, bad acks, raw events for unknown/removed ids, stale events of ended links, takeovers, persistent sessions, shared groups, wills) runs under a panic/overflow monitor; after every step the router's own slabs/maps are checked for alignment; every history ends with a full quiescence check of all surviving clients (the broker must still serve)."),
 "C04": dict(level="exploration", ref="3 C04", tech="runtime monitoring: generated well-formed packets through all four real codecs, round-trip / size / cross-crate equality oracles on a canonical projection", note=S1_NOTE,
             text="encode->decode equality, exact consumption, reported size == bytes written for the four codecs, and client->broker / broker->client interoperability via a canonical projection; exhaustive over v5 property-presence masks (<=10 properties), flag combinations and remaining-length width boundaries, random beyond."),
 "C05": dict(level="exploration", ref="3 C05", tech="runtime monitoring: arbitrary / mutated byte strings through the four real decoders and the real Framed / Network layers under every chunking, judged by an independent fixed-header parser", note=S1_NOTE,
             text="Outcome class of every decode (packet / malformed / need-more) against an independent fixed-header parser, bytes consumed, max-size enforcement, and chunking independence through tokio_util Framed (client codecs) and rumqttd Network::read/readv; exhaustive for strings of length <=2 and all first-byte x remaining-length-prefix combinations, mutation and random beyond."),
 "C06": dict(level="exploration", ref="3 C06, Appendix A", tech="runtime monitoring: per-connection reply sequence predicted by a sequential reference broker, compared online with every DeviceAck the real router emits; plus threaded rounds with an offline history checker", note=S4_NOTE + S5_ADD,
             text="For the packets each DeviceData step actually consumed the model emits the owed reply sequence; every ack the router puts into a link's buffer must be the head of that link's sequence (kind, packet id, return codes, right client, order) and nothing may be owed at quiescent points; QoS 2 publishes enter the acceptance log only at PUBREL, so a forward before release is spurious."),
 "C08": dict(level="fault_enumeration", ref="3 C08", tech="runtime monitoring with fault enumeration: for seeded base histories the end of a persistent session is injected before every operation in each of four flavours, then resumed; resume oracle from a sequential reference broker (restart at oldest unacknowledged QoS>0 message)", note=S4_NOTE,
             text="session_present, restored subscriptions, delivery of messages accepted while away, redelivery from the oldest unacknowledged QoS>0 message and no redelivery of acknowledged ones, clean connects starting empty. For every base history (12 quick / 1500 thorough, 25-60 operations, 2-4 persistent clients, bursts) the session end is injected before EVERY operation x {DISCONNECT packet, link failure, router-initiated close after a bad ack, take-over} (exhaustive per base history; base histories sampled), followed by a resume; plus random histories with 1-4 reconnect cycles and alternating clean flags."),
 "C09": dict(level="exploration", ref="3 C09, D.32, D.35", tech="runtime monitoring: boundary shadow of unacknowledged forwards per client at the router/link boundary (window <=100, id uniqueness, close on bad ack, no close on a solicited ack) and resumption at quiescence with acks as only stimulus; plus the buffer-full Unschedule/Ready handshake of the real connection task (full stack in memory) with a delay injected at a guarded pause point between the router's two critical sections", note=S4_NOTE,
             text="On every QoS>0 forward: packet id non-zero and not in the boundary-unacked set, at most 100 outstanding; unsolicited / out-of-order acks must close that connection and only that one; backlog must be completely forwarded at quiescent points reached with in-order acks as the only stimulus. Reuse of an id between PUBREC and PUBCOMP is counted in the evidence, not judged (see DESIGN.md 'readings')."),
 "C14": dict(level="exploration", ref="3 C14", tech="runtime monitoring: an always-present well-behaved publisher/subscriber pair judged by all delivery/ack oracles while other clients misbehave; closed-without-cause oracle; stale events of ended links injected around slot reuse; plus threaded rounds with a hostile reconnect-storm thread", note=S4_NOTE + S5_ADD,
             text="All C01/C06/C09 oracles restricted to the well-behaved pair plus 'a connection may only be closed for its own protocol violation, take-over or on request' for every connection, with the late events remote() can emit (DeviceData, Ready, Disconnect, PublishWill) injected at random positions relative to connects that reuse the slab slot."),
 "C15": dict(level="exploration", ref="3 C15", tech="runtime monitoring: retained map of a sequential reference broker vs every retain-flagged forward of the real router, completeness at quiescence", note=S4_NOTE,
             text="Every retain-flagged forward must be the current retained message of a topic matching a new non-shared subscription, at most once per subscription; live forwards never flagged; no replay on repeated or shared subscriptions; replay complete at quiescent points when it is certain to have fitted the delivery window."),
 "C17": dict(level="exploration", ref="3 C17", tech="runtime monitoring: per-group delivery ledger (message id -> member) over the real router's forwards: disjointness, per-member order, completeness at quiescence", note=S4_NOTE + S5_ADD + " Replays of histories that used the Random balancing strategy may not reproduce (the router draws from thread_rng).",
             text="Per shared group: no message to two members or twice to one (redelivery allowed only for forwards unacknowledged by a connection that ended), per-member acceptance order, nobody receives through a group it left, and at quiescent points every message accepted while the group stayed non-empty has gone to some member; three balancing strategies, QoS 0-2, member churn."),
}
S3_NOTE = ("Trusted base: the scripted broker and the M-client model of the harness; the transport hook (verif-hooks: in-memory connector, everything after the socket is the "
           "production path); tokio's paused clock (virtual time advances only when every task is blocked). The wire is decoded with the broker's codec, not the client's. "
           "tokio::select! polls its branches in random order, so exact ties between two ready branches are never judged. Held on the scenarios counted in the evidence file.")
checks.update({
 "C12": dict(level="exploration", ref="3 C12", tech="runtime monitoring: all three real copies of matches/valid_filter/valid_topic/has_wildcards called on enumerated and random strings under catch_unwind, judged by a level-by-level MQTT reference matcher and a mutual-agreement oracle", note=S1_NOTE,
             text="No panic, agreement of the three copies on every input, and conformance with the MQTT matching/validation rules on non-empty model-valid strings; exhaustive over an 8-symbol alphabet (letters, '/', '+', '#', '$', 2- and 3-byte characters) up to a length bound (quick: pairs of <=3 symbols, thorough: <=4; valid pairs <=6; validation on strings <=7), random strings up to 40 symbols beyond."),
 "C13": dict(level="exploration", ref="3 C13", tech="runtime monitoring: the real CommitLog driven next to a small reference log; every read from every issued cursor compared (items, offset tags, continuation, caught-up), retention bounds, fabricated cursors for the no-panic clause", note=S1_NOTE,
             text="After every append every previously issued cursor (log tail, entry offsets, continuations; fresh, stale, mid-segment, at boundaries) is read at several lengths including 0 and compared with the reference log; at most the configured number of segments, whole-segment eviction only, stale cursors resume at the oldest retained entry; small scope enumerated (all append-size sequences up to 6/8 appends), random histories beyond."),
 "C18": dict(level="exploration", ref="3 C18, Appendix B", tech="runtime monitoring under virtual time: the real EventLoop::poll() (v4 and v5) against a scripted broker over an in-memory transport; timestamped wire/event log judged by pure arithmetic on virtual timestamps", note=S3_NOTE,
             text="PINGREQ at least once per keep-alive interval, failure reported within two intervals after the broker (or the transport) goes silent, no keep-alive failure while every PINGREQ is answered in time, no pings with keep-alive zero, connect/handshake timeouts reported at the configured time; PINGRESP delays {0,K/4,K/2,K-1ms,K+1ms,never}, background traffic phases on a K/8 grid, silence at every grid phase, K in {1,2,5,60}s."),
})
S2_NOTE = ("Trusted base: the harness's M-client model (live set of accepted publishes keyed by unique payload ids) and its mirror of the event loop's request gate "
           "(inflight < max && no collision) for the state-machine substrate; the real MqttState (v4 and v5) is driven through its public API, every call under catch_unwind "
           "with overflow checks on. Held on the histories counted in the evidence file.")
checks.update({
 "C02": dict(level="fault_enumeration", ref="3 C02, Appendix B", tech="runtime monitoring with fault enumeration: the real MqttState (v4/v5) driven by seeded hostile publish/ack/reconnect histories, and the real EventLoop over an in-memory transport cut at every byte offset of both directions; after every call / poll() the live set of accepted publishes must be contained in what the client holds for retransmission (clean() on a clone + collision + pending)", note=S2_NOTE + " The event-loop half uses the S3 substrate (scripted broker, virtual time, FaultyStream); crash points are enumerated exhaustively per directed history, histories are sampled.",
             text="After every handle_* call: every accepted, not finally acknowledged QoS1/2 publish (unique payload id) is in flight or held for retransmission, inflight accounting is exact, and across simulated reconnects with session present every live publish and pending release is handed back for retransmission with its original id; ack orders in/out of order, duplicate, unsolicited, wrong kind, v5 failure reason codes, id wrap-around and collisions. State-machine substrate (S2) for the ack-order space; event-loop substrate (S3) with every byte-level crash point of directed histories in both directions and reconnects with session present / absent."),
 "C07": dict(level="exploration", ref="3 C07", tech="runtime monitoring: wire-side shadow of unacknowledged packet ids and state-side invariants of the real MqttState (v4/v5) after every call, with the event loop's request gate mirrored", note=S2_NOTE,
             text="Every packet the state machine hands to the wire has an id in 1..=limit, no two simultaneously unacknowledged publishes share an id (unacknowledged = until PUBACK / PUBCOMP), at most `limit` unacknowledged, no request accepted while the window is full or a collision is pending and acceptance resumes after a freeing ack, collision pending only while its id is genuinely held; limits 1..65535, v5 receive-maximum lowered by CONNACK."),
 "C10": dict(level="exploration", ref="3 C10", tech="runtime monitoring: broker packet sequences of every type/id fed to the real MqttState (v4/v5) and through the real EventLoop over an in-memory transport; incoming/outgoing event logs aligned with the wire log", note=S2_NOTE + " The event-loop half uses the S3 substrate (scripted broker, virtual time).",
             text="Each received packet surfaced exactly once and in wire order; QoS1 -> PUBACK, QoS2 -> PUBREC, known PUBREL -> PUBCOMP with the right id (none of them in manual-ack mode); unsolicited acks are errors that leave the bookkeeping unchanged and never panic; every written packet has exactly one Outgoing notification of the matching kind/id and nothing is announced that was not written (judged on transports that never failed)."),
 "C11": dict(level="fault_enumeration", ref="3 C11, Appendix B", tech="runtime monitoring with fault enumeration: the real EventLoop (v4/v5) over an in-memory transport under virtual time; for every history the connection is cut at every byte offset of both directions, then the wire log of the resumed connection is compared with the pre-failure send order", note=S3_NOTE,
             text="For sampled publish/ack histories (ids wrapping 0-3 times, requests left in the channel) the first connection is failed at EVERY byte of both directions (~110 crash points per history, exhaustive per history), optionally again during replay; on resume with session present every unacknowledged publish must precede any later request, keep id/QoS/topic, and (v4, in-order broker) keep the original order; with session absent nothing carried over may be sent and the state must be clean."),
})
S6_NOTE = ("Trusted base: the scripted raw-byte clients of the harness (encoding with a reference encoder written from the specifications, decoding with the *client* crate's codecs), "
           "the in-memory accept hook (Server::verif_accept = the real per-connection task remote()), the router snapshot requested through the guarded Event::VerifSnapshot. The router "
           "runs on its own thread with the production loop; time is real, verdicts are taken at logical barriers (connection task joined, router barrier event, sentinel publish received), "
           "a 30 s watchdog only yields inconclusive. The router half runs on the stepped substrate S4 (see C01's note). Held on the cases counted in the evidence file.")
checks.update({
 "C16": dict(level="fault_enumeration", ref="3 C16", tech="runtime monitoring with fault enumeration on the full in-memory broker stack: every end point of short sessions x 11 end flavours (socket close, close mid-frame, DISCONNECT variants, malformed frames, bad acks) plus keep-alive expiry; will publications counted at subscribers after logical barriers; plus the stepped router half (PublishWill in every order)", note=S6_NOTE,
             text="Will published exactly once to the current matching subscribers iff the connection ended without DISCONNECT, never after DISCONNECT, never from a client without a will, retain flag observable through a later subscription; v4 and v5 clients, will QoS 0-2, retained or not, will properties, 0-3 observers; for each generated session every end point is crossed with every end flavour (exhaustive per session; sessions sampled). Router half on S4: will registered at connect, dropped by DISCONNECT, published once by Event::PublishWill in every order relative to link drops and router-initiated closes."),
 "C19": dict(level="exploration", ref="3 C19", tech="runtime monitoring on the full in-memory broker stack: first-packet matrix against 8 listeners (v4/v5 x none/static/callback/both) judged by an admissibility predicate written from the statement (CONNACK, effect probe, router snapshot); connect/take-over storms against max_connections 1-3; plus the stepped router half", note=S6_NOTE,
             text="A network connection becomes a session only for a valid CONNECT of the listener's version with non-zero keep-alive, a client id free of + $ # / (non-empty unless clean session) and accepted credentials; otherwise no successful CONNACK, no SUBACK, no publish reaching a witness, and the client is absent from the router's connection map; a valid authenticated CONNECT is accepted; at most one live connection per client id and never more than max_connections after every step. First packets: CONNECT in 1-7 writes, other version, wrong name/level, every other packet type, every proper prefix of a CONNECT, random bytes."),
 "C20": dict(level="exploration", ref="3 C20", tech="runtime monitoring on the full in-memory broker stack: all four publisher/subscriber listener pairs (scripted clients and real rumqttc event loops), property subsets x QoS x retained replays x wills, subscriber side decoded with the client codecs; plus an encode sweep of every Notification shape the router emits through V4.write / V5.write under catch_unwind", note=S6_NOTE,
             text="Same topic and payload across protocol versions, MQTT 5 properties absent towards 3.1.1 subscribers and preserved towards MQTT 5 subscribers (topic alias and subscription identifier are the broker's, message expiry may be decremented), retained replays and wills with will properties included; every Forward (all 256 property subsets x QoS 0-2), every acknowledgement the router builds and DISCONNECT with each of the 29 reason codes must encode with the subscriber's protocol without panic or error and decode with the client codec."),
})
pending = {
}
import os, sys
extra = os.path.join(os.path.dirname(__file__), "manifest_extra.json")
if os.path.exists(extra):
    e = json.load(open(extra))
    for k, v in e.get("checks", {}).items():
        checks[k] = v
        pending.pop(k, None)
    for k, v in e.get("pending", {}).items():
        if k not in checks:
            pending[k] = v
hooks_commits = subprocess.run(["git","-C","/repo","log","--format=%h %s"],capture_output=True,text=True).stdout.splitlines()
hook_shas = [l.split()[0] for l in hooks_commits if "verif hook" in l or "verif-hooks:" in l]
ids=[f"C{i:02d}" for i in range(1,21)]
m={
 "version":1,
 "setup_cmd":"cd /verif/harness && CARGO_NET_OFFLINE=true cargo build --release --offline",
 "hooks":{
   "guard":"cargo feature verif-hooks (rumqttc and rumqttd), off by default",
   "enable":"the harness crate /verif/harness depends on /repo/rumqttc and /repo/rumqttd by path with features=[\"verif-hooks\"]; ./check rebuilds it (and thereby /repo's working tree) before every run",
   "baseline_off_cmd":"cd /repo && cargo test --workspace --no-fail-fast --offline",
   "source_commits":hook_shas,
   "add_only":True
 },
 "engines":[{"name":"vh","path":"/verif/harness","serves_properties":sorted(checks.keys()),"kind_free_text":"runtime monitors: seeded hostile workloads against the real crates (rebuilt from /repo's working tree), reference-model oracles over observed events, panic/overflow monitor; substrates S1 (pure calls), S2/S3 (client state machine / real event loop over in-memory transport, virtual time), S4 (real router stepped through hooks), S6 (full broker stack in memory)"}],
 "checks":[],
 "not_applicable":[{"property_id":i,"reason":pending[i]} for i in ids if i in pending],
 "notes":"See DESIGN.md. Verdicts are three-valued: exit 0 held on what was observed, exit 1 VIOLATION (replay file under /verif/replays), exit 2 INCONCLUSIVE (never a pass, never a violation). Known genuine defects: /verif/known_findings.json (status known: reported as KNOWN-FINDING lines; status fixed: repaired in /repo by a 'fix:' commit, suppress nothing)."
}
for i in ids:
    if i not in checks: continue
    c=checks[i]
    m["checks"].append({
      "property_id":i,
      "quick_cmd":f"./check {i} quick",
      "thorough_cmd":f"./check {i} thorough",
      "evidence_file":f"/verif/evidence/{i}.json",
      "replay_cmd_template":f"./check {i} --replay {{path}}",
      "engine":"vh",
      "level_claimed":{"category":c["level"],"text":c["text"],"design_ref":"DESIGN.md section "+c["ref"]},
      "level_note":c["note"],
      "technique":c["tech"],
    })
json.dump(m,open('/verif/MANIFEST.json','w'),indent=1)
import jsonschema
jsonschema.validate(m,json.load(open('/root/.vp/MANIFEST.schema.json')))
print("manifest ok:",len(m["checks"]),"checks,",len(m["not_applicable"]),"not claimed")
